"""debug helper: run one job of a harness in-process with progress output"""
import sys, os, time, importlib, logging, faulthandler
faulthandler.enable(); sys.unraisablehook = lambda *a: None
logging.disable(logging.CRITICAL)
from symex import engine
mod = importlib.import_module('harness.' + sys.argv[1])
tier = sys.argv[3] if len(sys.argv) > 3 else 'quick'
jobs = [j for j in mod.jobs(tier) if j['name'] == sys.argv[2]]
job = jobs[0]
body = mod.make_body(job)
mp = int(os.environ.get('MAXP', '200'))
t = time.perf_counter()
faulthandler.dump_traceback_later(int(os.environ.get('DUMP', '20')), exit=True)
sh = os.environ.get('SHARD')
E = engine.explore(body, max_paths=mp, shard=tuple(map(int, sh.split(','))) if sh else None)
print('paths', E.stats['paths'], 'stats', E.stats, '%.2fs' % (time.perf_counter() - t))
print('covers', E.covers)
print('inconclusive', E.inconclusive[:3])
for f in E.failures[:5]: print('FAIL', f.name, f.model_vals)
