"""C04 — per-member load is conserved; removed members drain, then close.
(a) inductive step on the real HeapBalancerSink with ghost outstanding counters;
(b) scenario: real ClientTimeoutSink stacked on the real balancer on the virtual loop, with symbolic
    reply / fault / timeout times: however a request completes, its release runs exactly once."""
import itertools
from symex.values import (check, cover, assume, sand, sor, snot, implies, siff, fresh_int, fresh_real, fresh_bool,
                          is_concrete, choose, ite)
from . import balancer as B
from .balancer import Idle, Pen
from .c03 import down_configs
from scales.loadbalancer.heap import HeapBalancerSink
from scales.constants import ChannelState, MessageProperties
from scales.message import MethodReturnMessage, MethodCallMessage

PROPERTY = 'C04'
INDUCTION_PREFIXES = ('inv.',)

SIZES = {'quick': (1, 2, 3, 4, 5), 'thorough': (1, 2, 3, 4, 5, 6)}
MAXDOWN = {'quick': 1, 'thorough': 2}

INFO = dict(
  explanation='(a) One inductive step of the real HeapBalancerSink from an arbitrary invariant-satisfying state with '
              'ghost per-member outstanding counters (symbolic): dispatch adds exactly one to exactly the chosen member, the '
              "per-request release (the real PutWrapper closure pushed on the call's sink stack) subtracts exactly one "
              'and is idempotent, the below-zero branch is unreachable, removal closes the channel iff idle or down, a '
              'draining removed member closes exactly when its last request completes and is never chosen again, '
              're-adding the endpoint creates a fresh member. (b) The real ClientTimeoutSink + real TimerQueue on '
              'top of the real balancer on the virtual-time loop with symbolic reply/fault/timeout instants: whichever of '
              'reply, error, timeout, late reply comes first, the release runs exactly once.',
  bounds={'quick': '(a) N<=5 members, <=1 down (<=2 down for N<=4, every queue order); outstanding 0..10^6 symbolic. (b) 2 members, <=2 concurrent calls, each with symbolic deadline, reply time and reply kind',
          'thorough': '(a) N<=6, <=2 down. (b) 2 members, 2 concurrent calls each with a duplicate late reply'},
  outside=['more members / more concurrent calls than the bound', 'aperture _total accounting (C06 harness)'],
  stubs=['random.randint -> symbolic index', 'fake member channels (state symbolic, fixed per operation)',
         'virtual-time loop (3.1); time.time = loop clock (3.2); math.ceil/float/int on symbolic reals in timer_queue (3.8)'],
  assumptions=['A1 zero-time code, A2 exact real time, A3 tie order', 'invariant = reachable states (checked inductive)'],
)
EXPECT_COVERS = ['remove-idle-closes', 'remove-loaded-defers', 'drain-last-closes', 'drain-not-last', 'double-release',
                 'timeout-then-late-reply', 'reply-before-timeout']


class Log(object):
  def __init__(self): self.warnings = []
  def warning(self, m, *a): self.warnings.append(m)
  def info(self, *a): pass
  def debug(self, *a): pass
  def error(self, *a): pass
  def exception(self, *a): pass


def jobs(tier):
  js = []
  for N in SIZES[tier]:
    for down in down_configs(N, max(MAXDOWN[tier], 2 if N <= 4 else 1)):
      tag = 'N%d-d%s' % (N, ''.join(map(str, down)) or '0')
      cost = 4 ** N
      js.append(dict(name='dispatch-' + tag, op='dispatch', N=N, down=down, cost=cost * 3))
      for v in range(1, N + 1):
        js.append(dict(name='complete%d-%s' % (v, tag), op='complete', N=N, down=down, v=v, cost=cost))
        js.append(dict(name='remove%d-%s' % (v, tag), op='remove', N=N, down=down, v=v, cost=cost * 2))
      js.append(dict(name='drain-' + tag, op='drain', N=N, down=down, cost=cost))
  from . import c04_scenario
  js.extend(c04_scenario.jobs(tier))
  return js


def ghost_ok(c, expect, tag):
  """every in-heap member's attributed load equals the expected outstanding count"""
  s = c.sink
  dq, _ = B.downq_nodes(s)
  ids = set(id(n) for n in dq)
  for n in s._heap[1:]:
    i = int(n.endpoint[2:])
    check('%s.conserved@%d' % (tag, i), B.outstanding_of(n, ids) == expect[i])
    check('%s.nonneg@%d' % (tag, i), B.outstanding_of(n, ids) >= 0)


def make_body(job):
  if job['op'] == 'scenario':
    from . import c04_scenario
    return c04_scenario.make_body(job)
  op = job['op']; N = job['N']; down = tuple(job['down'])
  def body():
    c = B.build(N, down, stale=('head' if op == 'drain' else False))
    s = c.sink
    log = Log(); s._log = log
    if op == 'dispatch':
      st, term, msg, chosen = B.dispatch(c)
      check('dispatch.one-member', len(chosen) == 1)
      if len(chosen) != 1: return
      ch = chosen[0]
      exp = dict(c.out); exp[ch] = c.out[ch] + 1
      ghost_ok(c, exp, 'dispatch')
      # the release pushed on the sink stack: first call subtracts one, second call nothing
      reply = MethodReturnMessage(return_value=1)
      st.AsyncProcessResponse(None, reply)
      check('release.delivered', len(term.got) == 1 and term.got[0] is reply)
      ghost_ok(c, c.out, 'release')
      B.check_inv(c)
      cover('double-release')
      # a second completion of the same call (late reply after timeout etc.) finds the stack
      # empty; calling the release closure again directly must be a no-op as well
      st.AsyncProcessResponse(None, reply)
      check('release.once-delivered', len(term.got) == 1)
      check('release.no-warning', not log.warnings or all('below Zero' not in w for w in log.warnings))
      check('release.no-close', all(c.chan[i].closed == 0 for i in c.chan))
    elif op == 'complete':
      v = job['v']
      assume(c.out[v] >= 1)
      B.release_method(s)(c.nodes[v])
      exp = dict(c.out); exp[v] = c.out[v] - 1
      ghost_ok(c, exp, 'complete')
      check('complete.no-below-zero', all('below Zero' not in w for w in log.warnings))
      check('complete.no-close', all(c.chan[i].closed == 0 for i in c.chan))
      B.check_inv(c)
    elif op == 'remove':
      v = job['v']
      s._RemoveSink('ep%d' % v)
      node = c.nodes[v]
      check('remove.left-heap', node.index == -1 and all(n is not node for n in s._heap))
      idle_or_down = sor(c.out[v] == 0, v in down)
      check('remove.close-iff-idle-or-down', siff(c.chan[v].closed == 1, idle_or_down))
      check('remove.close-at-most-once', c.chan[v].closed <= 1)
      check('remove.no-other-close', all(c.chan[i].closed == 0 for i in c.chan if i != v))
      exp = dict(c.out)
      ghost_ok(c, exp, 'remove')
      if c.chan[v].closed: cover('remove-idle-closes')
      else: cover('remove-loaded-defers')
      B.check_inv(c)
      # never chosen again
      st, term, msg, chosen = B.dispatch(c)
      check('remove.not-chosen-again', v not in chosen and (N == 1 or len(chosen) == 1))
      # re-adding the endpoint while the old node drains: a fresh member, old one untouched
      ch2 = B.Chan(100 + v, ChannelState.Open)
      before_closed = c.chan[v].closed
      s._AddSink('ep%d' % v, lambda: ch2)
      check('readd.fresh', sum(1 for n in s._heap[1:] if n.endpoint == 'ep%d' % v) == 1 and
            [n for n in s._heap[1:] if n.endpoint == 'ep%d' % v][0].channel is ch2 and
            [n for n in s._heap[1:] if n.endpoint == 'ep%d' % v][0].load == Idle)
      check('readd.old-untouched', c.chan[v].closed == before_closed and node.index == -1)
      B.check_inv(c)
    elif op == 'drain':
      # completion of a request on a removed (draining) member: the stale node of build()
      sn = c.stale
      sn.load = sn.load - Pen     # a removed, not-down node with out_stale outstanding
      s._downq = sn.downq; sn.downq = None
      out = sn.load - Idle
      assume(out >= 1)
      B.release_method(s)(sn)
      last = (out == 1)
      check('drain.close-iff-last', siff(sn.channel.closed == 1, last))
      check('drain.close-at-most-once', sn.channel.closed <= 1)
      check('drain.count', sn.load - Idle == out - 1)
      check('drain.no-below-zero', all('below Zero' not in w for w in log.warnings))
      if sn.channel.closed: cover('drain-last-closes')
      else: cover('drain-not-last')
      ghost_ok(c, c.out, 'drain')
      B.check_inv(c)
  return body
