"""C09 — failed endpoints fail fast and are used again once reachable.
Real Thrift / ThriftMux stacks (ResurrectorSink in the middle) over the fake TCP layer; the interval
during which the endpoint is unreachable, the request instants and the close instant are symbolic."""
import gevent
from symex.values import (check, cover, assume, sand, sor, snot, implies, fresh_real, fresh_int, choose, hdecide, is_concrete)
from symex import vtime, stubs, net as netm
from . import stacks
from .c01 import peer_cls, client
from scales.message import FailedFastError, TimeoutError as ScalesTimeout
from scales.dispatch import ScalesError
from scales.resurrector import ResurrectorSink

PROPERTY = 'C09'
MAXI = 60
INFO = dict(
  explanation='The real stacks from the public builders (ApertureBalancerSink -> ResurrectorSink -> [WatermarkPoolSink ->] transport). The single '
              'endpoint is unreachable during a SYMBOLIC interval [u0, u1): established connections are closed by the peer at u0 and connect '
              'attempts inside the interval are refused (u0 = 0: unreachable at the first connect). Requests are issued at symbolic instants, the '
              'client is closed at a symbolic instant. Oracle: a request issued while the endpoint is marked down completes at its issue '
              'instant with FailedFastError; reconnect attempts are spaced by non-decreasing delays never above the configured maximum (60 s); '
              'a request issued at least one maximum retry interval after the endpoint became reachable is served by it; no connect attempt '
              'happens after the client was closed.',
  bounds={'quick': 'one endpoint, back-off constants = builder defaults (5 s, x^1.2, max 60 s), unreachable for up to 40 s starting in [0, 20] s, and for 250-300 s (long-outage jobs: the back-off reaches its cap and stays there), 2 probe requests; client closed at a symbolic instant while down, also while a (slow) connect attempt is in flight; a server that hangs (established connections silent, new ones refused for a symbolic while) with a call timing out into the silence',
          'thorough': 'as quick with outages of up to 100 s (a two-endpoint scenario with overlapping outages under steady traffic was built - two_endpoints() - but does not finish within 30 min on 16 cores and is not registered)'},
  outside=['symbolic back-off parameters (exponentiation is out of reach of SMT; the defaults are concrete)', 'several endpoints failing independently',
           'flapping (more than one unreachable interval)'],
  stubs=['as C01; connect outcome is a function of the virtual time of the attempt'],
  assumptions=['A1-A4'],
)
EXPECT_COVERS = ['T:timed-out-into-silence', 'M:timed-out-into-silence', 'T:reconnect-refused-after-timeout', 'T:closed-during-connect-attempt', 'M:closed-during-connect-attempt', 'T:down-at-first-connect', 'M:down-at-first-connect', 'T:dies-later', 'M:dies-later', 'T:fail-fast', 'M:fail-fast',
                 'T:recovered', 'M:recovered', 'T:closed-while-down', 'M:closed-while-down']


def jobs(tier):
  js = []
  for k in ('T', 'M'):
    js.append(dict(name='%s-outage' % k, stack=k, sc='outage', maxdur=40 if tier == 'quick' else 100, cost=3000, shards=16, shard_depth=4))
    js.append(dict(name='%s-close-while-down' % k, stack=k, sc='close', cost=500, shards=4, shard_depth=2))
    js.append(dict(name='%s-close-during-connect' % k, stack=k, sc='closeconn', cost=500, shards=4, shard_depth=2))
  for k in ('T', 'M'):
    js.append(dict(name='%s-hang' % k, stack=k, sc='hang', cost=1000, shards=8, shard_depth=4))
    # an outage long enough for the back-off to reach its cap and stay there (defaults: 5, 6.9, 10.1, 16.1, 28.1, 54.9, 60, 60 s)
    js.append(dict(name='%s-long-outage' % k, stack=k, sc='outage', mindur=250, maxdur=300, cost=3000, shards=16, shard_depth=4))
  return js


def two_endpoints(job):
  """two endpoints, both in the aperture (min_size=2), each unreachable during its own symbolic interval (they may
  overlap); steady probing traffic; afterwards BOTH endpoints must carry traffic again"""
  def body():
    from scales.thriftmux import ThriftMux
    from scales.loadbalancer import ApertureBalancerSink
    from scales.constants import SinkRole
    e = stacks.setup()
    t_base = vtime.now()
    script = netm.Script(plan=lambda i, p: ('reply', 1))
    eps = {}
    win = {}
    for name, port in (('a', 1), ('b', 2)):
      # both outages last 25 s; a's starts at 8 s, b's at a symbolic instant (hence overlap and order are symbolic)
      u0 = 8 if name == 'a' else fresh_real('outage_%s_starts' % name, 1, 20); dur = 25
      win[name] = (u0, u0 + dur)
      def conn(kk, t, name=name):
        rel = t - t_base
        return 'refuse' if bool(sand(rel >= win[name][0], rel < win[name][1])) else 'ok'
      eps[name] = e.net.endpoint(name, port, peer=lambda s: netm.MuxPeer(s, script), connect=conn, connect_delay=0)
    hdecide(win['b'][0] < 8)
    b = ThriftMux.NewBuilder(stacks.Hello.Iface).SetUri('tcp://a:1,b:2').SetTimeout(5)
    c = b.ReplaceRole(SinkRole.LoadBalancer, ApertureBalancerSink.Builder(min_size=2)).Build()
    for name in ('a', 'b'):
      def outage(name=name):
        for s_ in list(eps[name].conns):
          if not s_.closed: s_.peer_close()
      gevent.spawn_later(win[name][0], outage)
    # steady traffic: a pair of concurrent calls every 4 s
    t_end = 112
    tick = 0
    while tick * 8 < t_end:
      c.hi_async('p%d' % tick); c.hi_async('q%d' % tick)
      gevent.sleep(8); tick += 1
    cover('two-endpoints-overlapping-outages')
    # both outages are over for more than one maximum retry interval: a pair of concurrent calls uses both endpoints
    n0 = len(script.requests)
    x = c.hi_async('final1'); y = c.hi_async('final2')
    gevent.sleep(6)
    served = set(p.sock.endpoint.addr[0] for (tt, p, m, a, tg) in script.requests[n0:])
    check('two.both-calls-served', all(len(stacks.events(z)) == 1 and stacks.events(z)[0][1] == 'value' for z in (x, y)))
    check('two.both-endpoints-carry-traffic-again', served == set(['a', 'b']))
    check('no-greenlet-error', not vtime.ERRORS)
    c.DispatcherClose()
  return body


def hang(job):
  """the server process hangs at a symbolic instant: connections established before that stay up but are never answered
  again, new connections are refused for a symbolic while, afterwards it accepts and answers again. A call issued into the
  silence times out (the serial transport then tries to reconnect and is refused); one maximum retry interval after
  the server is back it must be used again."""
  k = job['stack']
  def body():
    e = stacks.setup()
    u0 = fresh_real('hang_starts', 1, 20)
    dur = fresh_real('refuses_for', 0, 40, lo_strict=True)
    u1 = u0 + dur
    t_base = vtime.now()
    def plan(i, peer):
      return ('never',) if bool(peer.born - t_base < u0) and bool(vtime.now() - t_base >= u0) else ('reply', 0)
    script = netm.Script(plan=plan, ping_plan=plan)
    def conn(kk, t):
      rel = t - t_base
      return 'refuse' if bool(sand(rel >= u0, rel < u1)) else 'ok'
    def mkpeer(s_):
      p = peer_cls(k)(s_, script); p.born = vtime.now(); return p
    ep = e.net.endpoint('a', 1, peer=mkpeer, connect=conn, connect_delay=0)
    c = client(k, 'tcp://a:1', 5, open_timeout=0)
    p1 = fresh_real('call_into_silence_at', 0, 60)
    assume(sand(p1 > u0, p1 < u1))
    gevent.sleep(p1)
    ar1 = c.hi_async('p1')
    hdecide(p1 + 5 < u1)
    # while the first call is still pending a second one may be issued (it may need a second connection)
    gevent.sleep((u1 + MAXI + 1) - p1)
    ev1 = stacks.events(ar1)
    check('hang.call-into-silence-completes-once', len(ev1) == 1)
    if ev1 and isinstance(ev1[0][2], ScalesTimeout): cover(k + ':timed-out-into-silence')
    refused = [t for (kind, t, a, out) in e.net.log if kind == 'connect' and out == 'refuse']
    if refused: cover(k + ':reconnect-refused-after-timeout')
    ar2 = c.hi_async('p2')
    gevent.sleep(10)
    ev2 = stacks.events(ar2)
    check('hang.probe-completes-once', len(ev2) == 1)
    if ev2:
      check('hang.served-after-recovery', ev2[0][1] == 'value' and ev2[0][2] == 'echo:p2')
    attempts = [t - t_base for t in ep.attempts]
    gaps = [attempts[i + 1] - attempts[i] for i in range(1, len(attempts) - 1)]
    for g in gaps: check('hang.retry-gap-at-most-max', g <= MAXI)
    check('no-greenlet-error', not vtime.ERRORS)
    c.DispatcherClose()
  return body


def make_body(job):
  if job['sc'] == 'two': return two_endpoints(job)
  if job['sc'] == 'hang': return hang(job)
  k = job['stack']; sc = job['sc']
  def body():
    e = stacks.setup()
    first = choose('down_at_first_connect', 2)
    u0 = 0 if first else fresh_real('outage_starts', 1, 20)
    dur = fresh_real('outage_lasts', job.get('mindur', 0), job.get('maxdur', 40), lo_strict=True)
    u1 = u0 + dur
    t_base = vtime.now()
    script = netm.Script(plan=lambda i, p: ('reply', 0))
    # slow connects: during the outage a connect attempt takes a (symbolic) while before it is refused
    slow = fresh_real('refusal_takes', 0, 8) if sc == 'closeconn' else 0
    def conn(kk, t):
      rel = t - t_base
      return 'refuse' if bool(sand(rel >= u0, rel < u1)) else 'ok'
    ep = e.net.endpoint('a', 1, peer=lambda s: peer_cls(k)(s, script), connect=conn, connect_delay=(lambda kk: slow) if sc == 'closeconn' else 0)
    c = client(k, 'tcp://a:1', 5, open_timeout=0)
    cover(k + (':down-at-first-connect' if first else ':dies-later'))
    if not first:
      def outage():
        for s_ in list(e.net.conns):
          if not s_.closed: s_.peer_close()
      gevent.spawn_later(u0, outage)
    if sc == 'outage':
      probes = []
      # probe 1: some time during the outage; probe 2: at least one maximum interval after it ended
      p1 = fresh_real('probe_during_outage_at', 0, 60)
      # the client has traffic during the outage (an idle serial connection cannot notice that its peer went away)
      if not first: assume(sand(p1 > u0, p1 < u1))
      gevent.sleep(p1)
      t1 = vtime.now()
      ar1 = c.hi_async('p1')
      hdecide(p1 < u1)
      gevent.sleep((u1 + MAXI + 1) - p1 if bool(u1 + MAXI + 1 > p1) else 0)
      t2 = vtime.now()
      ar2 = c.hi_async('p2')
      gevent.sleep(10)
      attempts = [t - t_base for t in ep.attempts]
      ok_after = [t - t_base for (kind, t, a, out) in e.net.log if kind == 'connect' and out == 'ok' and bool(t - t_base >= u1)]
      recovered_at = ok_after[0] if ok_after else None
      # (a) fail fast while marked down: strictly inside (outage start + detection, successful reconnect)
      ev1 = stacks.events(ar1)
      check('probe1.completes-once', len(ev1) == 1)
      refused = [t - t_base for (kind, t, a, out) in e.net.log if kind == 'connect' and out == 'refuse']
      if ev1 and refused and bool(p1 > refused[0]) and (recovered_at is None or bool(p1 < recovered_at)):
        cover(k + ':fail-fast')
        tdone, kind_, val = ev1[0]
        inner = getattr(val, 'inner_exception', val)
        check('probe1.fails-fast-with-failed-fast-error', kind_ == 'error' and isinstance(inner, FailedFastError))
        check('probe1.fails-at-once', tdone == t1)
      # (b) spacing of reconnect attempts
      gaps = [attempts[i + 1] - attempts[i] for i in range(len(attempts) - 1)]
      rgaps = [g for i, g in enumerate(gaps) if i >= 1 or first]
      for i in range(len(rgaps)):
        check('retry.gap-at-most-max', rgaps[i] <= MAXI)
      # (c) resumed within one maximum retry interval, without any change to the server set
      ev2 = stacks.events(ar2)
      check('probe2.completes-once', len(ev2) == 1)
      if ev2:
        check('probe2.served-after-recovery', ev2[0][1] == 'value' and ev2[0][2] == 'echo:p2')
        if ev2[0][1] == 'value': cover(k + ':recovered')
      check('recovery.reconnected-within-max-interval', recovered_at is not None and bool(recovered_at <= u1 + MAXI))
      c.DispatcherClose()
    else:
      tc = fresh_real('close_at', 0, 50)
      gevent.sleep(tc)
      if bool(sand(tc > u0, tc < u1)): cover(k + ':closed-while-down')
      if sc == 'closeconn':
        inflight = [t for t in ep.attempts if bool(sand(t <= vtime.now(), vtime.now() < t + slow))]
        if inflight: cover(k + ':closed-during-connect-attempt')
      c.DispatcherClose()
      t_close = vtime.now()
      gevent.sleep(150)
      late = [t for t in ep.attempts if bool(t > t_close)]
      check('close.no-reconnect-after-close', not late)
      # ... and nothing stays connected: a connect attempt that was in flight when the client was closed is abandoned
      check('close.no-connection-left-open', all(s_.closed for s_ in ep.conns))
    check('no-greenlet-error', not vtime.ERRORS)
  return body
