"""C18 — metrics are neither lost, duplicated nor split across equal sources.
Real Source / VarzReceiver / VarzAggregator with symbolic source fields, amounts and samples."""
import logging
logging.disable(logging.CRITICAL)
from collections import defaultdict
from symex.values import (SymInt, SymReal, check, cover, assume, sand, sor, snot, implies, fresh_int, fresh_real, choose,
                          is_concrete, hdecide, lift_real)
from symex import vtime, stubs
import scales.varz as varz_mod
from scales.varz import Source, VarzReceiver, VarzAggregator, VarzType, _SampleSet

PROPERTY = 'C18'
INFO = dict(
  explanation='(a) Freshly constructed Source objects whose four fields are symbolic values from a small pool are used as keys of the real '
              'VARZ_DATA dictionaries through the real VarzReceiver.IncrementVarz / SetVarz / RecordPercentileSample: every dictionary probe '
              'compares sources with the real Source equality/hash, and each comparison of symbolic fields is a solver decision. Oracle: two '
              'updates whose field tuples are equal land in the same series (series count = number of distinct tuples), each series holds the '
              'sum of its symbolic amounts / the last gauge value, and the real VarzAggregator.Aggregate total per (service, client id) equals '
              'the sum of all amounts recorded for it. (b) Percentiles: real _SampleSet, _Downsample, CalculatePercentile and Aggregate over k '
              'symbolic real samples of one source: every reported percentile lies between the smallest and largest sample and percentiles are '
              'non-decreasing in the percentile rank; the reported mean lies in the same band.',
  bounds={'quick': '<=3 updates with field values from a 2-value pool per field (symbolic), amounts any integer; <=4 samples; <=3 samples spread over symbolic gaps of up to 10 minutes on the low-resolution clock; 2 live metric holders (public VarzBase objects, possibly for equal sources) with 3 interleaved updates', 'thorough': '<=4 updates from a 3-value pool; <=5 samples; 3 holders with 4 updates'},
  outside=['reservoir down-sampling beyond 1000 samples per source (random replacement)', 'IEEE rounding of the percentile interpolation (exact reals, A2)'],
  stubs=['LOW_RESOLUTION_TIME_SOURCE: the module-level object as imported (constant clock)', 'random.random in scales.varz -> symbolic [0,1) (unused below the reservoir size)'],
  assumptions=['A2 exact reals for sample arithmetic'],
)
EXPECT_COVERS = ['samples-spread-over-minutes', 'equal-sources-merge', 'distinct-sources-split', 'gauge-overwrite', 'percentile-interpolated', 'interleaved-holders']

M_COUNTER = 'verif.counter'; M_GAUGE = 'verif.gauge'; M_RATE = 'verif.rate'; M_PCT = 'verif.latency'


def jobs(tier):
  ku, pool = (3, 2) if tier == 'quick' else (4, 3)
  ks = 4 if tier == 'quick' else 5
  js = []
  for k in range(1, ku + 1):
    for kind in ('counter', 'rate', 'gauge'):
      js.append(dict(name='%s-u%d' % (kind, k), op=kind, k=k, pool=pool, cost=8 ** k, shards=1 if k < 3 else (8 if k == 3 else 32), shard_depth=6))
  # through the public metric objects (VarzBase holders): several live holders, possibly for equal sources, updated in an
  # interleaved order
  nh, kh = (2, 3) if tier == 'quick' else (3, 4)
  for kind in ('counter', 'rate', 'gauge'):
    js.append(dict(name='%s-holders-h%d-u%d' % (kind, nh, kh), op=kind, k=kh, holders=nh, pool=pool, cost=8 ** kh, shards=8, shard_depth=6))
  for k in range(1, ks + 1):
    js.append(dict(name='percentile-s%d' % k, op='pct', k=k, cost=3 ** k))
  js.append(dict(name='source-eq-hash', op='eqhash', pool=pool, cost=1))
  for k in (2, 3):
    js.append(dict(name='percentile-over-time-s%d' % k, op='pcttime', k=k, cost=3 ** k))
  # a reservoir that is full (capacity concretised to 2) and aggregated between updates: later samples replace retained
  # ones with the symbolic probability of the real Sample(); every report must come from the samples retained *then*
  for k in ((2,) if tier == 'quick' else (2, 3)):
    js.append(dict(name='percentile-full-reservoir-c2-extra%d' % k, op='pctfull', k=k, cap=2, cost=4 ** k))
  return js


def reset():
  VarzReceiver.VARZ_DATA = defaultdict(lambda: defaultdict(int))
  VarzReceiver.VARZ_METRICS = {M_COUNTER: VarzType.Counter, M_GAUGE: VarzType.Gauge, M_RATE: VarzType.Rate, M_PCT: VarzType.AverageTimer}
  varz_mod.random = stubs.SymRandom('varz')


def fresh_fields(j, pool):
  return tuple(fresh_int('%s%d' % (f, j), 0, pool - 1) for f in ('method', 'service', 'endpoint', 'client'))


def tuples_equal(a, b):
  return sand(*[x == y for x, y in zip(a, b)])


def make_body(job):
  op = job['op']
  def body():
    vtime.setup()
    reset()
    if op == 'eqhash':
      fa = fresh_fields(0, job['pool']); fb = fresh_fields(1, job['pool'])
      a = Source(*fa); b = Source(*fb)
      same = bool(tuples_equal(fa, fb))
      eq = bool(a == b)
      check('source.eq-iff-fields-equal', eq == same)
      check('source.ne-consistent', bool(a != b) == (not eq))
      if same: check('source.hash-consistent', hash(a) == hash(b))
      d = {a: 1}
      check('source.dict-lookup', (b in d) == same)
      return
    if op in ('counter', 'rate', 'gauge'):
      k = job['k']; metric = {'counter': M_COUNTER, 'rate': M_RATE, 'gauge': M_GAUGE}[op]
      ups = []
      if job.get('holders'):
        class HolderVarz(varz_mod.VarzBase):
          _VARZ_BASE_NAME = 'verif'
          _VARZ = {'counter': varz_mod.Counter, 'rate': varz_mod.Rate, 'gauge': varz_mod.Gauge}
        hs = []
        for h in range(job['holders']):
          f = fresh_fields(h, job['pool'])
          hs.append((f, HolderVarz(Source(*f))))
        for j in range(k):
          f, holder = hs[choose('holder%d' % j, len(hs))]
          amt = fresh_int('amount%d' % j, -10 ** 6, 10 ** 6)
          ups.append((f, amt))
          getattr(holder, op)(amt)
        if len(set(id(f) for f, a in ups)) > 1: cover('interleaved-holders')
      for j in range(k if not job.get('holders') else 0):
        f = fresh_fields(j, job['pool'])
        amt = fresh_int('amount%d' % j, -10 ** 6, 10 ** 6)
        ups.append((f, amt))
        src = Source(*f)                      # a freshly constructed source for every update
        if op == 'gauge': VarzReceiver.SetVarz(src, metric, amt)
        else: VarzReceiver.IncrementVarz(src, metric, amt)
      # reference: equivalence classes of field tuples (harness-level decisions)
      classes = []
      for f, amt in ups:
        for c in classes:
          if hdecide(tuples_equal(c[0], f)):
            c[1].append(amt); break
        else:
          classes.append((f, [amt]))
      if len(classes) < k: cover('equal-sources-merge')
      if len(classes) > 1: cover('distinct-sources-split')
      series = VarzReceiver.VARZ_DATA[metric]
      check('series-count-equals-distinct-sources', len(series) == len(classes))
      for f, amts in classes:
        got = [v for s, v in series.items() if bool(tuples_equal(s.to_tuple(), f))]
        check('series-unique', len(got) == 1)
        if len(got) == 1:
          if op == 'gauge':
            if len(amts) > 1: cover('gauge-overwrite')
            check('gauge-last-value', got[0] == amts[-1])
          else:
            check('series-sum', got[0] == sum(amts))
      # aggregation per (service, client id)
      agg = VarzAggregator.Aggregate(VarzReceiver.VARZ_DATA, VarzReceiver.VARZ_METRICS)[metric]
      keys = []
      for f, amts in classes:
        key = (f[1], f[3])
        for kk in keys:
          if hdecide(sand(kk[0][0] == key[0], kk[0][1] == key[1])):
            kk[1].append((f, amts)); break
        else:
          keys.append((key, [(f, amts)]))
      check('aggregate-key-count', len(agg) == len(keys))
      for key, members in keys:
        got = [v for kk, v in agg.items() if bool(sand(kk[0] == key[0], kk[1] == key[1]))]
        check('aggregate-key-unique', len(got) == 1)
        if len(got) == 1:
          if op == 'gauge': want = sum(amts[-1] for f, amts in members)
          else: want = sum(sum(amts) for f, amts in members)
          check('aggregate-total', got[0].total == want)
    elif op == 'pcttime':
      # samples arrive slowly (symbolic gaps of up to 10 minutes on the low-resolution clock); a source that recorded a
      # sample recently must still be reported from its retained samples
      k = job['k']
      class Clock(object): pass
      clk = Clock(); clk.now = 1000.0
      saved = varz_mod.LOW_RESOLUTION_TIME_SOURCE
      varz_mod.LOW_RESOLUTION_TIME_SOURCE = clk
      try:
        samples = []
        for i in range(k):
          gap = fresh_real('gap%d' % i, 0, 600)
          clk.now = clk.now + gap
          sv = fresh_real('sample%d' % i, 1, 1000)
          samples.append(sv)
          VarzReceiver.RecordPercentileSample(Source(1, 1, 1, 1), M_PCT, sv)
        idle = fresh_real('idle_before_aggregation', 0, 600)
        clk.now = clk.now + idle
        if k >= 2: cover('samples-spread-over-minutes')
        agg = VarzAggregator.Aggregate(VarzReceiver.VARZ_DATA, VarzReceiver.VARZ_METRICS)[M_PCT]
        tot = list(agg.values())[0].total
        mn = samples[0]; mx = samples[0]
        for sv in samples[1:]:
          mn = sv if bool(sv < mn) else mn
          mx = sv if bool(sv > mx) else mx
        if bool(idle < VarzAggregator.MAX_AGG_AGE):
          for p, pct in zip(tot[1:], VarzReceiver.VARZ_PERCENTILES):
            check('recent-source-percentile-in-band@%s' % pct, sand(p >= mn, p <= mx))
          check('recent-source-mean-in-band', sand(tot[0] >= mn, tot[0] <= mx))
      finally:
        varz_mod.LOW_RESOLUTION_TIME_SOURCE = saved
    elif op == 'pctfull':
      k = job['k']; cap = job['cap']
      saved_cap = VarzReceiver._MAX_PERCENTILE_SIZE
      VarzReceiver._MAX_PERCENTILE_SIZE = cap
      try:
        n = 0
        for rnd in range(2):
          for i in range(cap if rnd == 0 else k):
            VarzReceiver.RecordPercentileSample(Source(1, 1, 1, 1), M_PCT, fresh_real('sample%d' % n, -1000, 1000)); n += 1
          res = list(VarzReceiver.VARZ_DATA[M_PCT].values())[0]
          check('reservoir-bounded', isinstance(res, _SampleSet) and len(res.data) == cap)
          kept = list(res.data)
          agg = VarzAggregator.Aggregate(VarzReceiver.VARZ_DATA, VarzReceiver.VARZ_METRICS)[M_PCT]
          tot = list(agg.values())[0].total
          mn = kept[0]; mx = kept[0]
          for sv in kept[1:]:
            mn = sv if bool(sv < mn) else mn
            mx = sv if bool(sv > mx) else mx
          prev = None
          for p, pct in zip(tot[1:], VarzReceiver.VARZ_PERCENTILES):
            check('full-reservoir-percentile-in-retained-band@%s' % pct, sand(p >= mn, p <= mx))
            if prev is not None: check('full-reservoir-percentile-monotone@%s' % pct, p >= prev)
            prev = p
          check('full-reservoir-mean-in-retained-band', sand(tot[0] >= mn, tot[0] <= mx))
          if rnd == 1 and any(a is not b for a, b in zip(kept, first_kept)): cover('sample-replaced-after-first-report')
          first_kept = kept
      finally:
        VarzReceiver._MAX_PERCENTILE_SIZE = saved_cap
    elif op == 'pct':
      k = job['k']
      src = (1, 1, 1, 1)
      samples = [fresh_real('sample%d' % i, -1000, 1000) for i in range(k)]
      for s in samples:
        VarzReceiver.RecordPercentileSample(Source(*src), M_PCT, s)
      check('one-reservoir', len(VarzReceiver.VARZ_DATA[M_PCT]) == 1)
      res = list(VarzReceiver.VARZ_DATA[M_PCT].values())[0]
      check('all-retained', isinstance(res, _SampleSet) and len(res.data) == k)
      agg = VarzAggregator.Aggregate(VarzReceiver.VARZ_DATA, VarzReceiver.VARZ_METRICS)[M_PCT]
      check('one-aggregate', len(agg) == 1)
      tot = list(agg.values())[0].total
      check('shape', len(tot) == 1 + len(VarzReceiver.VARZ_PERCENTILES))
      lo_ok = lambda x: sand(*[x >= s for s in []])
      mn = samples[0]; mx = samples[0]
      for s in samples[1:]:
        mn = s if bool(s < mn) else mn
        mx = s if bool(s > mx) else mx
      mean = tot[0]
      check('mean-in-band', sand(mean >= mn, mean <= mx))
      prev = None
      for p, pct in zip(tot[1:], VarzReceiver.VARZ_PERCENTILES):
        check('percentile-in-band@%s' % pct, sand(p >= mn, p <= mx))
        if prev is not None: check('percentile-monotone@%s' % pct, p >= prev)
        prev = p
      if k > 1: cover('percentile-interpolated')
  return body
