"""Full client stacks from the public builders on the virtual loop over the fake TCP layer."""
import logging
logging.disable(logging.CRITICAL)
import gevent
from collections import defaultdict
from symex import vtime, stubs, net as netm
from symex.values import SymInt, SymReal, fresh_int, is_concrete
import scales.varz as vz
import scales.message as msg_mod
import scales.dispatch as disp_mod
import scales.asynchronous as async_mod
import scales.loadbalancer.heap as heap_mod
import scales.loadbalancer.aperture as ap_mod
import scales.loadbalancer.base as base_mod
import scales.thriftmux.sink as tmux_mod
import scales.timer_queue as tqm
import scales.resurrector as res_mod
from scales.message import Deadline
from scales.thrift import Thrift
from scales.thriftmux import ThriftMux
import sys, os
sys.path.insert(0, os.environ.get('VERIF_REPO', '/repo'))
for _m in [m for m in sys.modules if m == 'test' or m.startswith('test.')]: del sys.modules[_m]
from test.scales.thrift.gen_py.hello import Hello


class SymRandomNC(stubs.SymRandom):
  """random for time intervals: the value stays symbolic (no fork); it only ever feeds a timer"""
  def randint(self, a, b):
    return fresh_int(self.prefix + '_randint', int(a), int(b))


class ZeroDeadline(Deadline):
  """the ThriftMux Deadline context carries Long(time.time()): with a symbolic clock its bytes are not the
  subject of the stack scenarios (they are C13's): zeros are written instead"""
  def __init__(self, timeout):
    self._ts = 0; self._timeout = 0


_OrigAR = async_mod.AsyncResult


class CountingAR(_OrigAR):
  """the AsyncResult handed to callers: counts completions and records the virtual time of each"""
  log = None
  def set(self, value=None):
    self.__dict__.setdefault('events', []).append((vtime.now(), 'value', value))
    return _OrigAR.set(self, value)
  def set_exception(self, exception, exc_info=None):
    self.__dict__.setdefault('events', []).append((vtime.now(), 'error', exception))
    return _OrigAR.set_exception(self, exception, exc_info)


class Env(object):
  pass


class FixedRandom(stubs.SymRandom):
  """ping / jitter intervals in scenarios that are not about them: the midpoint of the documented range
  (a symbolic interval would race every other symbolic instant of the scenario; stated in the evidence)"""
  def randint(self, a, b): return (int(a) + int(b)) // 2


def setup(chunk=None, symbolic_intervals=False, fixed_exp=None):
  vtime.setup()
  e = Env()
  e.net = netm.Net(); e.net.install(); e.net.chunk = chunk
  vz.math = stubs.SymMath(); vz.float = stubs.sym_float
  stubs.EXP_FIXED = fixed_exp
  vz.VarzReceiver.VARZ_DATA = defaultdict(lambda: defaultdict(int))
  heap_mod.random = stubs.SymRandom('heap'); base_mod.random = stubs.SymRandom('base')
  ap_mod.random = SymRandomNC('ap') if symbolic_intervals else FixedRandom('ap')
  tmux_mod.random = SymRandomNC('ping') if symbolic_intervals else FixedRandom('ping')
  msg_mod.Long = stubs.sym_int
  tmux_mod.Deadline = ZeroDeadline
  q = tqm.TimerQueue(time_source=vtime.now, resolution=1)
  class TS(object):
    # LowResolutionTime: the real one follows the clock at 1 Hz; here it follows it exactly
    now = property(lambda self: vtime.now())
    def Get(self): return vtime.now()
  ts = TS()
  ap_mod.LOW_RESOLUTION_TIMER_QUEUE = q; ap_mod.LOW_RESOLUTION_TIME_SOURCE = ts
  disp_mod.AsyncResult = CountingAR
  async_mod.AsyncResult = CountingAR      # results created by ContinueWith/Unwrap (calls chained behind Open)
  return e


def thrift_client(uri, timeout, open_timeout=None):
  b = Thrift.NewBuilder(Hello.Iface).SetUri(uri).SetTimeout(timeout)
  if open_timeout is not None: b = b.SetOpenTimeout(open_timeout)
  return b.Build()


def mux_client(uri, timeout, open_timeout=None):
  b = ThriftMux.NewBuilder(Hello.Iface).SetUri(uri).SetTimeout(timeout)
  if open_timeout is not None: b = b.SetOpenTimeout(open_timeout)
  return b.Build()


def events(ar):
  return ar.__dict__.get('events', [])
