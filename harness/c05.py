"""C05 — balancer membership equals the server set after any join/leave history.
(a) inductive step through the real server-set callbacks of LoadBalancerSink / HeapBalancerSink /
    ApertureBalancerSink from an arbitrary state; (b) open-gating scenario on the virtual loop."""
import logging, itertools
logging.disable(logging.CRITICAL)
import gevent
from symex.values import (SymInt, check, cover, assume, sand, sor, snot, implies, siff, fresh_int, fresh_real, choose,
                          is_concrete, hdecide)
from symex import vtime, stubs
from . import balancer as B
from .balancer import Idle, Pen
from .fakes import Ep, Member, FakeServerSet, ChanProvider, new_call
import scales.loadbalancer.heap as heap_mod
import scales.loadbalancer.aperture as ap_mod
import scales.loadbalancer.base as base_mod
from scales.loadbalancer.heap import HeapBalancerSink
from scales.loadbalancer.aperture import ApertureBalancerSink
from scales.constants import ChannelState, SinkProperties, MessageProperties
from scales.sink import ClientMessageSinkStack
from scales.message import MethodCallMessage

PROPERTY = 'C05'
INDUCTION_PREFIXES = ('inv.',)
INFO = dict(
  explanation='(a) One step of the real membership callbacks (LoadBalancerSink.__OnServerSetJoin/__OnServerSetLeave -> __AddServer/__RemoveServer -> '
              'HeapBalancerSink._AddSink/_RemoveSink and the ApertureBalancerSink overrides incl. _TryExpandAperture) from an arbitrary state: '
              'the current member set R over a universe U (explicit shape), for the aperture its split into active and idle members, with '
              'SYMBOLIC per-member outstanding counts and channel states (heap-order invariant assumed). Operations: join of a new / present / '
              'previously departed member, leave of a present / unknown member. Oracle: the endpoints the balancer holds (heap nodes, plus idle '
              'endpoints for the aperture) equal the reference set R\', without duplicates, active and idle disjoint, _servers has exactly R\', '
              'the heap invariant still holds, and a dispatch afterwards reaches a member of R\' (never a departed one). (b) The real Open() on '
              'the virtual loop with a server-set provider whose initial listing takes a symbolic time while join/leave notifications arrive at '
              'symbolic instants (before, during, after loading): after quiescence the balancer holds exactly the provider\'s final set. (c) The real ZooKeeperServerSetProvider and '
              'ServerSet (kazoo watch recipes over the in-memory znode tree of C19, symbolic watch-delivery delays) feeding the real Open(): after a '
              'history of member znodes created / deleted (before, during, after the open) the balancer holds exactly the members in the tree.',
  bounds={'quick': '|U| <= 4, |R| <= 3; aperture min_size in {1,2}; gating: 2 initial members, 2 notifications; ZooKeeper provider: 2 znode changes over 3 names', 'thorough': '|U| <= 5, |R| <= 4; gating: 3 notifications; ZooKeeper provider: 3 znode changes'},
  outside=['larger universes', 'one endpoint registered under two member nodes at the same time (the balancer keys members by endpoint)', 'named (additional) endpoints', 'provider failures during Initialize/GetServers (retry loop)'],
  stubs=['random.* in heap/aperture/base -> symbolic (3.3); shuffle = identity', 'fake channels, fake server-set provider (3.12)', 'virtual loop (3.1)'],
  assumptions=['notifications are delivered serially in the order they occurred (the provider contract stated in base.py)', 'invariant = reachable states'],
)
EXPECT_COVERS = ['join-while-still-pending', 'join-new', 'join-duplicate', 'leave-present', 'leave-unknown', 'aperture-leave-active-replaced-from-idle',
                 'aperture-join-goes-idle', 'gating-notification-during-load', 'zk-member-created', 'zk-member-deleted', 'zk-change-during-open',
                 'zk-server-re-registers-under-new-node']


def jobs(tier):
  nu, nr = (4, 3) if tier == 'quick' else (5, 4)
  js = []
  for cls in ('heap', 'aperture'):
    for r in range(0, nr + 1):
      splits = [(r, 0)] if cls == 'heap' else [(a, r - a) for a in range(0, r + 1)]
      for (na, ni) in splits:
        if cls == 'aperture' and na == 0 and ni > 0: continue     # idle members only exist once min_size healthy members are active
        for ms in ((1,) if cls == 'heap' else (1, 2)):
          base = '%s-a%d-i%d-m%d' % (cls, na, ni, ms)
          tgts = []
          if na: tgts += [('leave', 'active', t) for t in range(na)]
          if ni: tgts += [('leave', 'idle', 0)]
          tgts += [('leave', 'unknown', 0), ('join', 'new', 0)]
          if cls == 'aperture': tgts += [('join', 'pending-departed', 0)]
          if na: tgts += [('join', 'dup-active', 0)]
          if ni: tgts += [('join', 'dup-idle', 0)]
          for (op, kind, t) in tgts:
            js.append(dict(name='%s-%s-%s%d' % (base, op, kind, t), op=op, kind=kind, t=t, cls=cls, na=na, ni=ni, ms=ms, cost=4 ** na))
  for cls in ('heap', 'aperture'):
    js.append(dict(name='gating-%s' % cls, op='gating', cls=cls, nn=2 if tier == 'quick' else 3, cost=3000, shards=16, shard_depth=6))
  kz = 2 if tier == 'quick' else 3
  for cls in ('heap', 'aperture'):
    js.append(dict(name='zk-provider-%s-k%d' % (cls, kz), op='zk', cls=cls, k=kz, cost=3000, shards=16, shard_depth=6))
  return js


def build(cls, na, ni, ms):
  heap_mod.random = stubs.SymRandom('heap'); ap_mod.random = stubs.SymRandom('ap'); base_mod.random = stubs.SymRandom('base')
  C = HeapBalancerSink if cls == 'heap' else ApertureBalancerSink
  ss = FakeServerSet(0)
  prov = ChanProvider()
  d = dict(C.Builder._defaults); d['server_set_provider'] = ss
  if cls == 'aperture': d.update(min_size=ms, jitter_min_sec=0, jitter_max_sec=0)
  s = C(prov, C.Builder.PARAMS_CLASS(**d), {SinkProperties.Label: 'verif'})
  s._open = True
  s._state = ChannelState.Open
  s._LoadBalancerSink__init_done.set()
  c = B.Ctx(); c.sink = s; c.N = na; c.prov = prov
  c.members = [Member(Ep('h%d' % i, 9000 + i)) for i in range(1, na + ni + 1)]
  c.out = {}; c.st = {}; c.chan = {}; c.nodes = {}
  for i in range(1, na + 1):
    m = c.members[i - 1]
    factory = (lambda m=m: prov.CreateSink({SinkProperties.Endpoint: m.service_endpoint}))
    s._servers[m.service_endpoint] = factory
    c.out[i] = fresh_int('out%d' % i, 0, B.OUT_MAX)
    c.st[i] = fresh_int('st%d' % i, 1, 4)
    ch = B.Chan(i, c.st[i]); c.chan[i] = ch
    n = C.Node(ch, Idle + c.out[i], i, m.service_endpoint)
    s._heap.append(n); c.nodes[i] = n
  s._size = na
  for i in range(2, na + 1):
    assume(snot(c.nodes[i].load < c.nodes[i // 2].load))
  for j in range(na + 1, na + ni + 1):
    m = c.members[j - 1]
    s._servers[m.service_endpoint] = (lambda m=m: prov.CreateSink({SinkProperties.Endpoint: m.service_endpoint}))
    s._idle_endpoints.add(m.service_endpoint)
  if cls == 'aperture':
    s._total = sum(c.out[i] for i in c.out) if c.out else 0
    # the EMA is not the subject here: keep _AdjustAperture out of the way (no traffic in these steps)
  return c


def held_endpoints(s):
  eps = [n.endpoint for n in s._heap[1:]]
  idle = list(getattr(s, '_idle_endpoints', []))
  return eps, idle


def check_membership(c, R, tag):
  s = c.sink
  eps, idle = held_endpoints(s)
  allheld = eps + idle
  check(tag + '.no-duplicates', len(set(allheld)) == len(allheld))
  check(tag + '.equals-server-set', set(allheld) == set(R))
  check(tag + '.servers-map', set(s._servers.keys()) == set(R))
  check(tag + '.size-field', s._size == len(eps) and len(s._heap) == len(eps) + 1)
  for i in range(2, s._size + 1):
    check('inv.order@%d' % i, snot(s._heap[i].load < s._heap[i // 2].load))
  check('inv.index', all(s._heap[i].index == i for i in range(1, s._size + 1)))


def make_body(job):
  op = job['op']
  def body():
    if op == 'gating':
      return gating(job)
    if op == 'zk':
      return zk_provider(job)
    cls, na, ni, ms = job['cls'], job['na'], job['ni'], job['ms']
    c = build(cls, na, ni, ms)
    s = c.sink
    R = [m.service_endpoint for m in c.members]
    kind, t = job['kind'], job['t']
    join = s._LoadBalancerSink__OnServerSetJoin; leave = s._LoadBalancerSink__OnServerSetLeave
    if op == 'join':
      if kind in ('new', 'pending-departed'):
        cover('join-new')
        m = Member(Ep('new', 1))
        if kind == 'pending-departed':
          # the endpoint was taken into the aperture, left while its channel was still opening (it is still
          # recorded as pending) and now joins again
          cover('join-while-still-pending')
          s._pending_endpoints.add(m.service_endpoint)
        join(m); R2 = R + [m.service_endpoint]
        eps, idle = held_endpoints(s)
        if m.service_endpoint in idle: cover('aperture-join-goes-idle')
        if m.service_endpoint in eps:
          node = [n for n in s._heap[1:] if n.endpoint == m.service_endpoint][0]
          check('join.fresh-node-idle', node.load == Idle)
      else:
        cover('join-duplicate')
        m = c.members[0] if kind == 'dup-active' else c.members[na]
        created = len(c.prov.created)
        join(Member(Ep(m.service_endpoint.host, m.service_endpoint.port))); R2 = R
        check('join.duplicate-creates-nothing', len(c.prov.created) == created)
    else:
      if kind == 'unknown':
        cover('leave-unknown')
        leave(Member(Ep('ghost', 7))); R2 = R
        check('leave.unknown-closes-nothing', all(c.chan[i].closed == 0 for i in c.chan))
      else:
        cover('leave-present')
        m = c.members[t] if kind == 'active' else c.members[na]
        leave(Member(Ep(m.service_endpoint.host, m.service_endpoint.port)))
        R2 = [e for e in R if e != m.service_endpoint]
        if kind == 'active' and ni:
          eps, idle = held_endpoints(s)
          if len(eps) == na: cover('aperture-leave-active-replaced-from-idle')
          check('leave.active-replaced-from-idle', len(eps) == na and len(idle) == ni - 1)
    check_membership(c, R2, op)
    # eligibility: a dispatch reaches a member of the new set, never a departed one
    st = ClientMessageSinkStack(); term = B.Terminal(); st.Push(term)
    msg = MethodCallMessage(None, 'm', (), {})
    if cls == 'aperture':
      import scales.varz as vz
      vz.math = stubs.SymMath(); vz.float = stubs.sym_float
    s._AsyncProcessRequestImpl(st, msg, None, None)
    ep = msg.properties.get(MessageProperties.Endpoint)
    eps2, idle2 = held_endpoints(s)
    if R2 and (eps2 or cls == 'heap'):
      check('dispatch.to-current-member', ep in R2)
    elif not R2:
      check('dispatch.no-members-fails', len(term.got) == 1)
  return body


def gating(job):
  """real Open() while the initial listing is in flight and notifications arrive"""
  vtime.setup()
  heap_mod.random = stubs.SymRandom('heap'); ap_mod.random = stubs.SymRandom('ap'); base_mod.random = stubs.SymRandom('base')
  import scales.varz as vz
  vz.math = stubs.SymMath(); vz.float = stubs.sym_float
  cls = job['cls']
  C = HeapBalancerSink if cls == 'heap' else ApertureBalancerSink
  load_time = fresh_real('load_time', 0, 3)
  ss = FakeServerSet(2, get_delay=load_time if hdecide(load_time > 0) else None)
  current = list(ss.members)
  snapshot_at_end = choose('snapshot_at_end', 2)
  real_get = ss.GetServers
  def GetServers():
    snap = list(current)
    if ss.get_delay is not None: gevent.sleep(ss.get_delay)
    return list(current) if snapshot_at_end else snap
  ss.GetServers = GetServers
  prov = ChanProvider()
  d = dict(C.Builder._defaults); d['server_set_provider'] = ss
  if cls == 'aperture': d.update(min_size=1, jitter_min_sec=0, jitter_max_sec=0)
  s = C(prov, C.Builder.PARAMS_CLASS(**d), {SinkProperties.Label: 'verif'})
  extra = Member(Ep('x', 1))
  events = []
  for i in range(job['nn']):
    at = fresh_real('event_at%d' % i, 0, 5)
    kind = choose('event_kind%d' % i, 3)    # 0 leave member0, 1 join extra, 2 leave extra / rejoin member0
    events.append((at, kind, i))
  def deliver(kind):
    # the provider applies the change and notifies (each notification in its own greenlet, FIFO)
    if kind == 0:
      m = ss.members[0]
      if m in current: current.remove(m); gevent.spawn(ss.on_leave, m)
      else: current.append(m); gevent.spawn(ss.on_join, m)
    elif kind == 1:
      if extra not in current: current.append(extra); gevent.spawn(ss.on_join, extra)
      else: gevent.spawn(ss.on_join, extra)           # duplicate join
    else:
      if extra in current: current.remove(extra); gevent.spawn(ss.on_leave, extra)
      else: gevent.spawn(ss.on_leave, extra)          # leave of an unknown member
  ar = s.Open()
  for at, kind, i in events:
    def ev(kind=kind, at=at):
      if ss.on_join is None: return
      if s._state != ChannelState.Open: cover('gating-notification-during-load')
      deliver(kind)
    gevent.spawn_later(at, ev)
  gevent.sleep(10)
  check('gating.open-completes', ar.ready())
  eps, idle = held_endpoints(s)
  final = [m.service_endpoint for m in current]
  check('gating.equals-final-server-set', set(eps + idle) == set(final) and len(eps + idle) == len(set(eps + idle)))
  check('gating.servers-map', set(s._servers.keys()) == set(final))
  check('no-greenlet-error', not vtime.ERRORS)
  s.Close()


def zk_provider(job):
  """the real ZooKeeperServerSetProvider + ServerSet (kazoo's real watch recipes over the in-memory znode tree of C19)
  feeding the real balancer through its real Open(): after a history of member znodes being created and deleted the
  balancer holds exactly the members present in the tree"""
  from . import c19 as Z
  from scales.loadbalancer.serverset import ZooKeeperServerSetProvider
  vtime.setup()
  heap_mod.random = stubs.SymRandom('heap'); ap_mod.random = stubs.SymRandom('ap'); base_mod.random = stubs.SymRandom('base')
  import scales.varz as vz
  vz.math = stubs.SymMath(); vz.float = stubs.sym_float
  cls = job['cls']
  C = HeapBalancerSink if cls == 'heap' else ApertureBalancerSink
  delays = {}
  def delay(i):
    if i not in delays: delays[i] = fresh_real('watch_delay%d' % i, 0, 2)
    return delays[i]
  t = Z.Tree(delay); zk = Z.FakeZk(t)
  t.create('/svc'); t.create('/svc/member_A', Z.member_blob(0)); t.create('/svc/other_node', b'{}')
  ssp = ZooKeeperServerSetProvider(zk, '/svc')
  prov = ChanProvider()
  d = dict(C.Builder._defaults); d['server_set_provider'] = ssp
  if cls == 'aperture': d.update(min_size=1, jitter_min_sec=0, jitter_max_sec=0)
  s = C(prov, C.Builder.PARAMS_CLASS(**d), {SinkProperties.Label: 'verif'})
  ar = s.Open()
  first_at = fresh_real('first_change_at', 0, 3)
  if hdecide(first_at > 0): gevent.sleep(first_at)
  if s._state != ChannelState.Open: cover('zk-change-during-open')
  EPI = {'member_A': 0, 'member_B': 1, 'member_C': 0}
  last = None
  for step in range(job['k']):
    if step:
      g = fresh_real('gap%d' % step, 0, 3)
      if hdecide(g > 0): gevent.sleep(g)
    present = t.children('/svc')
    ops = [('delete', n) if n in present else ('create', n) for n in Z.NAMES]
    o, n = ops[choose('op%d' % step, len(ops))]
    if o == 'create':
      # member_C is member_A's server registering again under a new node name (same endpoint); the two nodes are never
      # present at the same time (the balancer keys its members by endpoint)
      if any(EPI[m] == EPI[n] for m in present if m in EPI): continue
      if n == 'member_C' and step and last == ('delete', 'member_A'): cover('zk-server-re-registers-under-new-node')
      t.create('/svc/' + n, Z.member_blob(EPI[n])); cover('zk-member-created')
    else: t.delete('/svc/' + n); cover('zk-member-deleted')
    last = (o, n)
  gevent.sleep(30)
  check('zk.open-completes', ar.ready())
  eps, idle = held_endpoints(s)
  held = [(e.host, e.port) for e in eps + idle]
  final = [('h%d' % EPI[n], 9000 + EPI[n]) for n in t.children('/svc') if n.startswith('member_')]
  check('zk.equals-tree-members', set(held) == set(final) and len(held) == len(set(held)))
  check('zk.servers-map', set((e.host, e.port) for e in s._servers.keys()) == set(final))
  # eligibility: a dispatch reaches a current member
  if final:
    st = ClientMessageSinkStack(); term = B.Terminal(); st.Push(term)
    msg = MethodCallMessage(None, 'm', (), {})
    s.AsyncProcessRequest(st, msg, None, None)
    ep = msg.properties.get(MessageProperties.Endpoint)
    check('zk.dispatch-to-current-member', ep is not None and (ep.host, ep.port) in final)
  check('no-greenlet-error', not vtime.ERRORS)
  s.Close(); t.worker.kill(block=False)
