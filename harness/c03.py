"""C03 — the balancer sends each request to a least-loaded open member.
Inductive step on the real HeapBalancerSink / ApertureBalancerSink (see harness/balancer.py)."""
import itertools
from symex.values import (check, cover, assume, sand, sor, snot, implies, siff, fresh_int, is_concrete)
from . import balancer as B
from .balancer import Idle, Pen
from scales.loadbalancer.heap import HeapBalancerSink
from scales.loadbalancer.base import NoMembersError
from scales.constants import ChannelState, MessageProperties
from scales.message import MethodReturnMessage

PROPERTY = 'C03'
# failures of these checks alone mean the induction did not close (inconclusive), not a violation
INDUCTION_PREFIXES = ('inv.', 'base')

SIZES = {'quick': (1, 2, 3, 4, 5, 6), 'thorough': (1, 2, 3, 4, 5, 6, 7, 8)}
MAXDOWN = {'quick': 1, 'thorough': 2}

INFO = dict(
  explanation='One inductive step of the real HeapBalancerSink code (dispatch = _AsyncProcessRequestImpl/__Get, '
              'completion = __Put, _RemoveSink, _AddSink, Heap.FixUp/FixDown/Swap, Node.__lt__) from an ARBITRARY '
              'pre-state satisfying the representation invariant (heap order, index map, load = Idle + outstanding '
              '(+Penalty if down), down queue = down nodes): per-member outstanding counts and channel states are '
              'symbolic integers, the random re-insertion index is symbolic. After the step: invariant re-established '
              'and the member that received the request is an Open one with the fewest outstanding among Open members '
              '(or no member is Open). Together with the base case (real constructor + _AddSink + _OpenInitialChannels) '
              'this covers histories of any length within the size bound.',
  bounds={'quick': 'members N<=6; <=1 member marked down (every position; <=2 down, every pair and queue order, for N<=4), optional stale removed node in the down queue; outstanding 0..10^6 per member (symbolic); channel state any of 4 per member (symbolic)',
          'thorough': 'members N<=8; <=2 members marked down (every pair and queue order); otherwise as quick'},
  outside=['more than 8 members / more than 2 simultaneously down members', 'the aperture subclass hooks (covered in C06 harness)',
           'channel state changing in the middle of one dispatch (states are fixed for one operation)'],
  stubs=['random.randint in scales.loadbalancer.heap -> fresh symbolic index in [1,size] (stub 3.3)',
         'member channels are fakes recording Open/Close/AsyncProcessRequest with a symbolic state (3.12)',
         'server set provider is a stub (membership is C05)'],
  assumptions=['pre-states are exactly those satisfying the stated invariant; its inductiveness is itself checked on every step and the base case',
               'RLock is uncontended (single operation per step)'],
)

EXPECT_COVERS = ['open-with-empty-server-set', 'dispatch-marks-down', 'dispatch-resurrects', 'dispatch-all-down', 'complete-idle-reinsert',
                 'remove-middle', 'dispatch-open-chosen']


def down_configs(N, maxdown):
  out = [()]
  for k in range(1, maxdown + 1):
    if k > N: break
    for comb in itertools.permutations(range(1, N + 1), k):
      # feasible shapes only: a down node sorts after every up node, so all its heap
      # descendants must be down as well
      if all(ch in comb for i in comb for ch in (2 * i, 2 * i + 1) if ch <= N):
        out.append(comb)
  return out


def jobs(tier):
  js = []
  js.append(dict(name='base', op='base', N=0, down=(), cost=1))
  js.append(dict(name='empty', op='empty', N=0, down=(), cost=1))
  for cls in ('heap', 'aperture'):
    js.append(dict(name='empty-at-open-%s' % cls, op='empty-open', cls=cls, N=0, down=(), cost=5))
  for N in SIZES[tier]:
    for down in down_configs(N, max(MAXDOWN[tier], 2 if N <= 4 else 1)):
      stales = [False] if (down and N > 4) else [False, 'head', 'tail']
      for stale in stales:
        tag = 'N%d-d%s%s' % (N, ''.join(map(str, down)) or '0', ('-s' + stale) if stale else '')
        cost = 4 ** N
        js.append(dict(name='dispatch-' + tag, op='dispatch', N=N, down=down, stale=stale, cost=cost * 3))
        if stale: continue
        for v in range(1, N + 1):
          js.append(dict(name='complete%d-%s' % (v, tag), op='complete', N=N, down=down, stale=False, v=v, cost=cost))
          js.append(dict(name='remove%d-%s' % (v, tag), op='remove', N=N, down=down, stale=False, v=v, cost=cost))
        js.append(dict(name='add-' + tag, op='add', N=N, down=down, stale=False, cost=cost))
        js.append(dict(name='removeunknown-' + tag, op='remove', N=N, down=down, stale=False, v=0, cost=1))
  return js


def least_loaded_oracle(c, chosen):
  Open = ChannelState.Open
  others = [implies(c.st[j] == Open, c.out[chosen] <= c.out[j]) for j in range(1, c.N + 1)]
  none_open = sand(*[snot(c.st[j] == Open) for j in range(1, c.N + 1)])
  return sor(sand(c.st[chosen] == Open, *others), none_open)


def followup(c, members, out2, tag):
  """a dispatch from the post-state must again pick a least-loaded Open member: turns a broken
  internal invariant into the observable property violation it causes"""
  if not c.followup: return
  s = c.sink
  before = dict((i, c.chan[i].reqs) for i in c.chan)
  st = B.ClientMessageSinkStack(); term = B.Terminal(); st.Push(term)
  msg = B.MethodCallMessage(None, 'm', (), {})
  s._AsyncProcessRequestImpl(st, msg, None, None)
  chosen = [i for i in c.chan if c.chan[i].reqs != before[i]]
  if not members:
    check(tag + '.empty-fails', len(chosen) == 0 and len(term.got) == 1 and isinstance(term.got[0].error, NoMembersError))
    return
  check(tag + '.one-member', len(chosen) == 1 and chosen[0] in members)
  if len(chosen) == 1 and chosen[0] in members:
    ch = chosen[0]
    Open = ChannelState.Open
    others = [implies(c.st[j] == Open, out2[ch] <= out2[j]) for j in members]
    none_open = sand(*[snot(c.st[j] == Open) for j in members])
    check(tag + '.least-loaded-open', sor(sand(c.st[ch] == Open, *others), none_open))


def second_stage(job):
  """when an invariant check fails (induction does not close) the job is re-run with a follow-up
  dispatch from the post-state, looking for the observable violation the broken invariant causes"""
  if job['op'] in ('dispatch', 'complete', 'remove', 'add') and not job.get('followup'):
    j = dict(job); j['followup'] = True; j['name'] = job['name'] + '+followup'
    return j
  return None


def make_body(job):
  op = job['op']; N = job['N']; down = tuple(job['down'])
  def body():
    if op == 'base':
      # base case: the real constructor, _AddSink and _OpenInitialChannels establish the invariant
      for n in range(0, 9):
        s = B.new_sink()
        c = B.Ctx(); c.sink = s
        chans = []
        for i in range(1, n + 1):
          ch = B.Chan(i, ChannelState.Idle); chans.append(ch)
          s._AddSink('ep%d' % i, lambda ch=ch: ch)
        s._OpenInitialChannels.__func__  # exists
        B.check_inv(c, 'base%d' % n)
        check('base%d.idle' % n, all(nd.load == Idle for nd in s._heap[1:]))
      return
    if op == 'empty-open':
      # the balancer is opened (real Open()) while its server set is still empty: a request fails at once with
      # NoMembersError, and once a member has joined requests reach it
      import gevent
      from symex import vtime, stubs
      import scales.loadbalancer.heap as heap_mod
      from scales.sink import ClientMessageSinkStack
      from scales.message import MethodCallMessage
      from .fakes import FakeServerSet, ChanProvider, Member, Ep
      from scales.loadbalancer.aperture import ApertureBalancerSink
      from scales.constants import SinkProperties
      import scales.loadbalancer.aperture as ap_mod, scales.loadbalancer.base as base_mod, scales.varz as vz
      vtime.setup()
      heap_mod.random = stubs.SymRandom('heap'); ap_mod.random = stubs.SymRandom('ap'); base_mod.random = stubs.SymRandom('base')
      vz.math = stubs.SymMath(); vz.float = stubs.sym_float
      C = HeapBalancerSink if job['cls'] == 'heap' else ApertureBalancerSink
      ss = FakeServerSet(0); prov = ChanProvider()
      d = dict(C.Builder._defaults); d['server_set_provider'] = ss
      if job['cls'] == 'aperture': d.update(jitter_min_sec=0, jitter_max_sec=0)
      s = C(prov, C.Builder.PARAMS_CLASS(**d), {SinkProperties.Label: 'verif'})
      ar = s.Open()
      gevent.sleep(1)
      check('emptyopen.open-completes', ar.ready())
      st = ClientMessageSinkStack(); term = B.Terminal(); st.Push(term)
      s.AsyncProcessRequest(st, MethodCallMessage(None, 'm', (), {}), None, None)
      gevent.sleep(1)
      check('emptyopen.fails-at-once', len(term.got) == 1 and isinstance(getattr(term.got[0], 'error', None), NoMembersError))
      m = Member(Ep('h1', 9001))
      gevent.spawn(ss.on_join, m)
      gevent.sleep(1)
      st2 = ClientMessageSinkStack(); term2 = B.Terminal(); st2.Push(term2)
      s.AsyncProcessRequest(st2, MethodCallMessage(None, 'm', (), {}), None, None)
      gevent.sleep(1)
      cover('open-with-empty-server-set')
      check('emptyopen.joined-member-gets-the-request', len(term2.got) == 0 and sum(len(c_.requests) for c_ in prov.created) == 1)
      s.Close()
      return
    if op == 'empty':
      s = B.new_sink()
      c = B.Ctx(); c.sink = s; c.N = 0; c.chan = {}
      st, term, msg, chosen = B.dispatch(c)
      check('empty.fails-at-once', len(term.got) == 1 and isinstance(term.got[0], MethodReturnMessage)
            and isinstance(term.got[0].error, NoMembersError))
      return
    c = B.build(N, down, job.get('stale', False))
    s = c.sink
    c.followup = job.get('followup', False)
    if op == 'dispatch':
      st, term, msg, chosen = B.dispatch(c)
      check('dispatch.one-member', len(chosen) == 1 and c.chan[chosen[0]].reqs == 1 and
            (c.stale is None or c.stale.channel.reqs == 0))
      if len(chosen) == 1:
        ch = chosen[0]
        check('dispatch.least-loaded-open', least_loaded_oracle(c, ch))
        check('dispatch.endpoint-stamp', msg.properties.get(MessageProperties.Endpoint) == 'ep%d' % ch)
        check('dispatch.not-failed', len(term.got) == 0)
        # witnesses
        dq, _ = B.downq_nodes(s)
        now_down = set(n.endpoint for n in dq)
        if any(('ep%d' % i) in now_down and i not in down for i in range(1, N + 1)): cover('dispatch-marks-down')
        if any(('ep%d' % i) not in now_down and i in down for i in range(1, N + 1)): cover('dispatch-resurrects')
        if len([i for i in range(1, N + 1) if ('ep%d' % i) in now_down]) == N: cover('dispatch-all-down')
        else: cover('dispatch-open-chosen')
      B.check_inv(c)
      if len(chosen) == 1:
        out2 = dict(c.out); out2[chosen[0]] = c.out[chosen[0]] + 1
        followup(c, list(range(1, N + 1)), out2, 'after-dispatch')
    elif op == 'complete':
      v = job['v']
      assume(c.out[v] >= 1)
      before = c.nodes[v].load
      B.release_method(s)(c.nodes[v])
      check('complete.decrement', c.nodes[v].load == before - 1)
      if c.nodes[v].index == s._size or True:
        if not down or v not in down:
          pass
      if (c.nodes[v].load == Idle) if is_concrete() else bool(c.nodes[v].load == Idle):
        if N > 1: cover('complete-idle-reinsert')
      check('complete.no-close', all(c.chan[i].closed == 0 for i in c.chan))
      B.check_inv(c)
      out2 = dict(c.out); out2[v] = c.out[v] - 1
      followup(c, list(range(1, N + 1)), out2, 'after-complete')
    elif op == 'remove':
      v = job['v']
      if v == 0:
        r = s._RemoveSink('ep-unknown')
        check('remove-unknown.noop', (not r) and s._size == N and all(c.chan[i].closed == 0 for i in c.chan))
        B.check_inv(c)
        return
      if 1 < v < N: cover('remove-middle')
      r = s._RemoveSink('ep%d' % v)
      node = c.nodes[v]
      check('remove.gone', bool(r) and node.index == -1 and all(n is not node for n in s._heap) and s._size == N - 1)
      check('remove.others-stay', sorted(n.endpoint for n in s._heap[1:]) == sorted('ep%d' % i for i in range(1, N + 1) if i != v))
      B.check_inv(c)
      followup(c, [i for i in range(1, N + 1) if i != v], dict(c.out), 'after-remove')
    elif op == 'add':
      ch = B.Chan(N + 1, fresh_int('st_new', 1, 4)); c.chan[N + 1] = ch
      s._AddSink('ep%d' % (N + 1), lambda: ch)
      check('add.present', s._size == N + 1 and sorted(n.endpoint for n in s._heap[1:]) == sorted('ep%d' % i for i in range(1, N + 2)))
      check('add.idle', [n for n in s._heap[1:] if n.endpoint == 'ep%d' % (N + 1)][0].load == Idle)
      B.check_inv(c)
      out2 = dict(c.out); out2[N + 1] = 0; c.st[N + 1] = ch._st
      followup(c, list(range(1, N + 2)), out2, 'after-add')
  return body
