"""C11 — multiplexed requests carry unique, unreserved tags that are recycled safely.
Inductive step on the real TagPool + tag map of the real ThriftMux / Kafka transport sinks:
arbitrary high-water mark (full range), symbolic free and in-flight tags, arbitrary peer frame."""
import logging
logging.disable(logging.CRITICAL)
import z3
from symex.values import (SymInt, check, cover, assume, sand, sor, snot, implies, siff, fresh_int, fresh_bool,
                          is_concrete, hdecide, choose)
from symex import symbytes, stubs
from symex.symbytes import SymBytes, SymBytesIO
import scales.mux.sink as mux_mod
import scales.thriftmux.sink as tmux_mod
import scales.thriftmux.serializer as tser_mod
import scales.kafka.sink as kafka_mod
from scales.thriftmux.protocol import MessageType
from scales.constants import ChannelState, TransportHeaders
from scales.message import MethodCallMessage, MethodReturnMessage, Deadline
from scales.observable import Observable
from scales.asynchronous import AsyncResult
from .fakes import Terminal, new_call

PROPERTY = 'C11'
MAXTAG = 2 ** 24 - 2

INFO = dict(
  explanation='One inductive step on the real tag machinery (TagPool.get/release, MuxSocketTransportSink.AsyncProcessRequest / '
              '_ReleaseTag / _ProcessTaggedReply / _HandleTimeout, thriftmux.SocketTransportSink._ProcessReply/_OnTimeout/_BuildHeader, '
              'ReadHeader, KafkaTransportSink._ProcessReply) from an arbitrary state: high-water mark next in [1, 2^24-2] (full range, '
              'symbolic), free set F and in-flight map T of symbolic distinct tags in [2,next] (real Python set/dict keyed by '
              'symbolic ints: every lookup is a chain of solver decisions), then one operation: a new request, a peer frame with '
              'ARBITRARY type byte and 24-bit tag (in T / in F / never issued / 0 / 1 / duplicate), a timeout before transmission, '
              'a timeout after transmission. Oracle: tag handed out is in [2, 2^24-2] and not in T; taken from F when F is non-empty '
              '(high-water mark unchanged); exhaustion only at 2^24-2; a tag enters F only if it was in T and answered, or its request '
              'was never written; reserved tags never enter F; the frame queued for the wire carries exactly that tag.',
  bounds={'quick': '|F|<=2, |T|<=2 (every shape), next and all tags symbolic over the full range', 'thorough': '|F|<=3, |T|<=3'},
  outside=['more than 3 free / in-flight tags in the pre-state shape (sizes beyond are covered only through the inductive argument on these shapes)',
           'the ping exchange on tag 1 beyond its effect on the tag state'],
  stubs=['struct.pack/unpack in scales.thriftmux.sink, scales.thriftmux.serializer, scales.mux.sink, scales.kafka.sink -> symbolic big-endian model with range errors (3.4)',
         'BytesIO -> SymBytesIO (3.5)', 'socket: a recorder (no I/O happens in one step); send loop not running: the queued frame is inspected',
         "'%d' % tag inside log calls -> placeholder (3.8)"],
  assumptions=['pre-states = those satisfying Inv: F and keys(T) disjoint subsets of [2,next], next <= 2^24-2 (checked inductive on every step)'],
)
EXPECT_COVERS = ['reply-in-flight', 'reply-free-tag', 'reply-unissued-tag', 'reply-reserved-1', 'reply-tag-0',
                 'get-from-free', 'get-fresh', 'get-exhausted', 'timeout-unsent', 'timeout-sent']


class Sock(object):
  host = 'h'; port = 1
  def __init__(self): self.written = []
  def write(self, b): self.written.append(b)
  def close(self): pass
  def open(self): pass
  def isOpen(self): return True


def install_models():
  for m in (mux_mod, tmux_mod, tser_mod, kafka_mod):
    symbytes.install(m)
    if hasattr(m, 'BytesIO'): m.BytesIO = SymBytesIO


def jobs(tier):
  mx = 2 if tier == 'quick' else 3
  js = []
  for kind in ('tmux', 'kafka'):
    for nf in range(mx + 1):
      for nt in range(mx + 1):
        for op in ('request', 'reply', 'timeout-unsent', 'timeout-sent'):
          if op.startswith('timeout') and nt == 0: continue
          js.append(dict(name='%s-%s-F%d-T%d' % (kind, op, nf, nt), kind=kind, op=op, nf=nf, nt=nt, cost=(nf + 1) * (nt + 1)))
  return js


def build(kind, nf, nt):
  from symex import vtime
  vtime.setup()
  install_models()
  cls = tmux_mod.SocketTransportSink if kind == 'tmux' else kafka_mod.KafkaTransportSink
  sock = Sock()
  s = cls(sock, 'svc')
  s._Init()
  s._state = ChannelState.Open
  nxt = fresh_int('next', 1, MAXTAG)
  s._tag_pool._next = nxt
  F = [fresh_int('f%d' % i, 2, MAXTAG) for i in range(nf)]
  T = [fresh_int('t%d' % i, 2, MAXTAG) for i in range(nt)]
  allt = F + T
  for x in allt: assume(x <= nxt)
  for i in range(len(allt)):
    for j in range(i + 1, len(allt)):
      assume(snot(allt[i] == allt[j]))
  # every key is a SymInt so that set/dict probing is by (symbolic) equality
  wrap = (lambda v: v) if is_concrete() else (lambda v: v if isinstance(v, SymInt) else SymInt(v))
  for f in F: s._tag_pool._set.add(wrap(f))
  terms = []
  for t in T:
    st, term, msg = new_call()
    msg.properties[mux_mod.Tag.KEY] = wrap(t)
    s._tag_map[wrap(t)] = (st, 0, msg.properties)
    terms.append((st, term, msg))
  return s, sock, nxt, F, T, terms


def in_list(x, xs):
  return sor(*[x == y for y in xs]) if xs else False


def inv_after(s, tag='inv'):
  """F' and keys(T') disjoint, inside [2, next'], next' <= max"""
  F2 = list(s._tag_pool._set); T2 = list(s._tag_map.keys()); n2 = s._tag_pool._next
  check(tag + '.next-range', sand(n2 >= 1, n2 <= MAXTAG))
  for x in F2 + T2:
    check(tag + '.in-range', sand(x >= 2, x <= n2))
  allt = F2 + T2
  for i in range(len(allt)):
    for j in range(i + 1, len(allt)):
      check(tag + '.distinct', snot(allt[i] == allt[j]))
  return F2, T2, n2


def header_tag(kind, payload):
  """the harness's own reading of the tag carried by a queued frame"""
  b = SymBytes.of(payload)
  if kind == 'tmux':
    # 4 bytes length, 1 type, 3 bytes tag
    t = [b[5], b[6], b[7]]
    return t[0] * 65536 + t[1] * 256 + t[2]
  # kafka: 4 len, 2 api key, 2 version, 4 correlation id
  v = b[8] * 16777216 + b[9] * 65536 + b[10] * 256 + b[11]
  return v


def make_body(job):
  kind = job['kind']; op = job['op']; nf = job['nf']; nt = job['nt']
  def body():
    s, sock, nxt, F, T, terms = build(kind, nf, nt)
    if op == 'request':
      st, term, msg = new_call()
      buf = SymBytesIO(); buf.write(b'\x01\x02')
      mt = MessageType.Tdispatch if kind == 'tmux' else 0
      try:
        s.AsyncProcessRequest(st, msg, buf, {TransportHeaders.MessageType: mt})
      except Exception as e:
        check('request.no-unexpected-error', 'No tags left' in str(e))
        if 'No tags left' not in str(e): return
        cover('get-exhausted')
        check('request.exhausted-only-at-max', sand(nf == 0, nxt == MAXTAG))
        F2, T2, n2 = inv_after(s)
        check('request.exhausted-changes-nothing', len(F2) == nf and len(T2) == nt and bool(n2 == nxt))
        return
      check('request.not-exhausted-below-max', sor(nf > 0, snot(nxt == MAXTAG)))
      tag = msg.properties[mux_mod.Tag.KEY]
      check('request.tag-range', sand(tag >= 2, tag <= MAXTAG))
      check('request.tag-not-in-flight', snot(in_list(tag, T)))
      if nf:
        cover('get-from-free')
        check('request.reuses-free-tag', in_list(tag, F))
        check('request.high-water-unchanged', s._tag_pool._next == nxt)
      else:
        cover('get-fresh')
        # a fresh tag extends the range of tags ever issued by at most one (bounded consumption); which fresh tag is
        # the implementation's choice
        check('request.fresh-tag-bounded', sand(tag <= nxt + 1, snot(in_list(tag, T))))
      F2, T2, n2 = inv_after(s)
      check('request.registered', len(T2) == nt + 1 and in_list(tag, T2) is not False)
      check('request.free-shrinks', len(F2) == max(0, nf - 1))
      # the frame queued for the wire carries exactly that tag
      check('request.one-frame-queued', s._send_queue.qsize() == 1)
      if s._send_queue.qsize() != 1: return
      payload, props = s._send_queue.get_nowait()
      check('request.frame-tag', header_tag(kind, payload) == tag)
    elif op == 'reply':
      r = fresh_int('r', 0, 2 ** 24 - 1)
      if kind == 'tmux':
        mtype = fresh_int('mtype', -128, 127)
        s._ping_ar = AsyncResult() if choose('ping_pending', 2) else None
        frame = symbytes.sym_pack('!bBBB', mtype, r / 65536 if is_concrete() and False else (r >> 16) & 0xff, (r >> 8) & 0xff, r & 0xff) + b'\x00\x00\x00'
      else:
        frame = symbytes.sym_pack('!i', r) + b'\x00\x00'
      stream = SymBytesIO(frame)
      in_T = in_list(r, T); in_F = in_list(r, F)
      s._ProcessReply(stream)
      F2, T2, n2 = inv_after(s)
      got = [len(term.got) for (st, term, msg) in terms]
      if bool(in_T):
        cover('reply-in-flight')
        check('reply.answered-removed', len(T2) == nt - 1 and sum(got) == 1)
        check('reply.answered-tag-free', in_list(r, F2) is not False and bool(in_list(r, F2)) if not is_concrete() else r in F2)
        check('reply.free-grows-by-one', len(F2) == nf + 1)
      else:
        if bool(in_F): cover('reply-free-tag')
        elif bool(r == 0): cover('reply-tag-0')
        elif bool(r == 1): cover('reply-reserved-1')
        else: cover('reply-unissued-tag')
        # a frame for a tag with no unanswered request changes nothing: no tag becomes reusable
        check('reply.unknown-no-delivery', sum(got) == 0 and len(T2) == nt)
        check('reply.unknown-not-released', len(F2) == nf)
      for x in F2:
        check('reply.reserved-never-free', sand(snot(x == 0), snot(x == 1)))
      check('reply.high-water-unchanged', n2 == nxt)
    elif op in ('timeout-unsent', 'timeout-sent'):
      # through the real send loop: the request is queued, the loop writes it (or skips it because its
      # time-out already struck), then the time-out strikes
      import gevent
      st, term, msg = terms[0]
      evt = Observable(); msg.properties[Deadline.EVENT_KEY] = evt
      buf = SymBytesIO(); buf.write(b'\x01\x02')
      hdr = s._BuildHeader(T[0], MessageType.Tdispatch if kind == 'tmux' else 0, 2)
      s._send_queue.put((SymBytes.of(hdr) + b'\x01\x02', msg.properties))
      if op == 'timeout-unsent':
        cover('timeout-unsent')
        evt._value = True       # timed out while still in the send queue
      loop = gevent.spawn(s._SendLoop)
      for _ in range(4): gevent.sleep(0)
      if op == 'timeout-unsent':
        check('timeout-unsent.never-written', len(sock.written) == 0)
        F2, T2, n2 = inv_after(s)
        check('timeout-unsent.released', len(T2) == nt - 1 and len(F2) == nf + 1)
        check('timeout-unsent.tag-free', bool(in_list(T[0], F2)))
      else:
        cover('timeout-sent')
        check('timeout-sent.written', len(sock.written) == 1)
        evt.Set(True)             # the time-out strikes after transmission
        for _ in range(6): gevent.sleep(0)
        F2, T2, n2 = inv_after(s)
        check('timeout-sent.tag-stays-unanswered', len(T2) == nt and len(F2) == nf and bool(in_list(T[0], T2)))
        # (Kafka has no discard message: the correlation id simply stays reserved)
        if kind == 'tmux': check('timeout-sent.discard-written', len(sock.written) == 2)
        if kind == 'tmux' and len(sock.written) == 2:
          b = SymBytes.of(sock.written[1])
          check('timeout-sent.discard-type', b[4] == MessageType.Tdiscarded)
          check('timeout-sent.discard-own-tag-0', header_tag(kind, sock.written[1]) == 0)
          check('timeout-sent.discard-names-tag', b[8] * 65536 + b[9] * 256 + b[10] == T[0])
      loop.kill(block=False)
  return body
