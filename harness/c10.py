"""C10 — the timer queue runs each action once, never early, in deadline order.
Scenario on the virtual loop: the REAL TimerQueue (worker greenlet, gevent Event, heapq) with
symbolic deadlines, symbolic gaps between Schedule calls and symbolic cancel instants."""
import gevent
from symex.values import (check, cover, assume, sand, sor, snot, implies, siff, fresh_real, fresh_bool, time_const, choose,
                          is_concrete, SymReal, Exact, lift_real, hdecide)
from symex import vtime, stubs
import scales.timer_queue as tqm

PROPERTY = 'C10'
INFO = dict(
  explanation='The real scales.timer_queue.TimerQueue (Schedule, cancel closure, _TimerWorker, _PeekNext; real gevent '
              'Event/Greenlet/sleep, real heapq) runs on the virtual-time loop. k Schedule calls are made with symbolic '
              'deadlines d_i in [now-1, now+3] separated by symbolic gaps g_i >= 0 (so "while the worker sleeps", "same '
              'slice", "deadline in the past", "new earliest deadline", "equal rounded deadlines" are all decided by the '
              'solver, both ways where feasible), each optionally cancelled at a symbolic later instant. Oracle: every '
              'action not cancelled before its rounded deadline ran exactly once at virtual time max(ceil_res(d_i), t_sched_i) '
              '(hence never before d_i and with no further scheduling activity); equal rounded deadlines run in scheduling '
              'order; an action cancelled strictly before that instant never runs; cancelling changes nothing else.',
  bounds={'quick': 'k=3 actions, <=1 cancel, resolutions 0.01 / 0 / 1; plus 40 pending actions of which 36 are cancelled in one burst at a symbolic instant (one live deadline symbolic)', 'thorough': 'k=4 actions with <=1 cancel (resolution 0.01); k=3 actions with <=2 cancels for resolutions 0.01 / 0 / 1'},
  outside=['more than k pending actions', 'IEEE-754 rounding of ceil(d/res)*res (time is over exact reals; the one-ulp-early effect is documented in DESIGN.md 7.3)',
           'starvation of the hub (A1)'],
  stubs=['virtual-time loop (3.1)', 'time source = loop clock', 'math.ceil/float/int on symbolic reals as module globals of scales.timer_queue (3.8)'],
  assumptions=['A1 zero-time code', 'A2 exact reals', 'A3 equal-time timers fire in registration order'],
)
EXPECT_COVERS = ['schedule-one-tick-after-previous', 'bulk-cancel-while-worker-sleeps', 'deadline-in-past', 'new-head-while-sleeping', 'equal-rounded-deadlines', 'cancel-before-deadline',
                 'cancel-current-head', 'same-slice-schedules', 'cancel-too-late']


def jobs(tier):
  import itertools
  js = []
  def add(k, res, cset):
    js.append(dict(name='k%d-res%s-c%s' % (k, res, ''.join(map(str, cset)) or 'none'), k=k, res=res, cancels=list(cset),
                   cost=10 ** k * (3 if cset else 1), shards=(8 if k >= 3 else 2) * (2 if cset else 1) * (8 if k >= 4 else 1), shard_depth=k))
  if tier == 'quick':
    for res, k in ((0.01, 3), (0, 2), (1, 2)):
      add(k, res, ())
      for c in range(k): add(k, res, (c,))
  else:
    # 4 actions with at most one cancel; 3 actions with every pair of cancels; coarse / no rounding with 3 actions
    add(4, 0.01, ())
    for c in range(4): add(4, 0.01, (c,))
    for res in (0.01, 0, 1):
      for nc in range(0, 3):
        for cset in itertools.combinations(range(3), nc): add(3, res, cset)
  js.append(dict(name='bulk-cancel-n40', k=40, res=0.01, cancels=[], bulk=True, cost=500, shards=4, shard_depth=2))
  return js


def rounded(d, res):
  if not res: return d
  return stubs.sym_int(stubs.sym_ceil(stubs.sym_float(d) / time_const(res))) * time_const(res)


def bulk_body(job):
  """many pending actions, most of them cancelled in one burst at a symbolic instant while the worker sleeps on the
  (cancelled) head; the few live ones have symbolic deadlines"""
  N = job['k']; res = job['res']
  def body():
    vtime.setup()
    q = tqm.TimerQueue(time_source=vtime.now, resolution=time_const(res))
    log = []
    live = (7, 19, 33, 39)
    d = {}; cancel = {}
    for i in range(N):
      if i == 19: d[i] = fresh_real('d%d' % i, vtime.T0 + 1, vtime.T0 + 4)       # one live action has a symbolic deadline
      else: d[i] = time_const(vtime.T0 + 1) + time_const(0.05) * i
      cancel[i] = q.Schedule(d[i], (lambda i=i: log.append((i, vtime.now()))))
    at = fresh_real('burst_at', 0, 1, hi_strict=True)
    if hdecide(at > 0): gevent.sleep(at)
    for i in range(N):
      if i not in live: cancel[i]()
    cover('bulk-cancel-while-worker-sleeps')
    gevent.sleep(10)
    for i in range(N):
      runs = [t for (j, t) in log if j == i]
      if i in live:
        check('bulk.live-ran-once@%d' % i, len(runs) == 1)
        if len(runs) == 1:
          check('bulk.live-at-rounded-deadline@%d' % i, runs[0] == rounded(d[i], res))
          check('bulk.never-early@%d' % i, runs[0] >= d[i])
      else:
        check('bulk.cancelled-never-runs@%d' % i, len(runs) == 0)
    check('no-greenlet-error', not vtime.ERRORS)
    q._worker.kill(block=False)
  return body


def make_body(job):
  if job.get('bulk'): return bulk_body(job)
  k = job['k']; res = job['res']; cancels = set(job['cancels'])
  def body():
    vtime.setup()
    q = tqm.TimerQueue(time_source=vtime.now, resolution=time_const(res) if res else 0)
    log = []
    t0 = vtime.now()
    d = []; ts = []; r = []; ctime = {}
    cancel_fns = {}
    for i in range(k):
      g = fresh_real('gap%d' % i, 0, 2)
      if i > 0 or True:
        if hdecide(g > 0):
          gevent.sleep(g)
        elif i > 0 and choose('yield_one_tick%d' % i, 2):
          # no time passes, but the caller yields to the scheduler once: the worker has been woken by the previous
          # Schedule and is between looking at the head and going to sleep
          cover('schedule-one-tick-after-previous')
          gevent.sleep(0)
        else:
          cover('same-slice-schedules')
      di = fresh_real('d%d' % i, vtime.T0 - 1, vtime.T0 + 3)
      d.append(di); ts.append(vtime.now())
      cancel_fns[i] = q.Schedule(di, (lambda i=i: log.append((i, vtime.now()))))
      r.append(rounded(di, res))
      if i in cancels:
        cg = fresh_real('cancel_after%d' % i, 0, 4)
        ctime[i] = ts[i] + cg
        def do_cancel(i=i):
          cancel_fns[i]()
          # witness: cancelling the entry the worker is currently waiting on
          if q._queue and q._queue[0][2] and q._queue[0][1] == i + 1: cover('cancel-current-head')
        if hdecide(cg > 0):
          gevent.spawn_later(cg, do_cancel)
        else:
          do_cancel()
    gevent.sleep(12)
    # ---- oracle
    for i in range(k):
      runs = [t for (j, t) in log if j == i]
      expect = r[i] if bool(r[i] >= ts[i]) else ts[i]
      if bool(r[i] < ts[i]): cover('deadline-in-past')
      if i in cancels:
        if bool(ctime[i] < expect):
          cover('cancel-before-deadline')
          check('cancelled-never-runs@%d' % i, len(runs) == 0)
          continue
        if bool(ctime[i] == expect):
          check('cancel-tie-at-most-once@%d' % i, len(runs) <= 1)
          continue
        cover('cancel-too-late')
      check('ran-exactly-once@%d' % i, len(runs) == 1)
      if len(runs) == 1:
        check('ran-at-rounded-deadline@%d' % i, runs[0] == expect)
        check('never-early@%d' % i, runs[0] >= d[i])
    # order: same instant and both pending before it -> scheduling order
    pos = dict((j, n) for n, (j, t) in enumerate(log))
    for i in range(k):
      for j in range(i + 1, k):
        if i in pos and j in pos:
          if bool(r[i] == r[j]) and bool(ts[j] < r[j]):
            cover('equal-rounded-deadlines')
            check('tie-in-scheduling-order@%d,%d' % (i, j), pos[i] < pos[j])
          if bool(r[j] < r[i]) and bool(ts[j] < r[j]) and bool(ts[i] < r[i]):
            cover('new-head-while-sleeping')
            check('deadline-order@%d,%d' % (i, j), pos[j] < pos[i])
    check('no-greenlet-error', not vtime.ERRORS)
    q._worker.kill(block=False)
  return body
