"""C13 — ThriftMux frames are byte-exact for every message, tag and context.
Symbolic serialization through the REAL sinks and serializer, decoded by the harness's own mux
decoder written from the protocol description."""
import logging
logging.disable(logging.CRITICAL)
import time
import z3
from symex.values import (SymInt, SymReal, check, cover, assume, sand, sor, snot, implies, siff, fresh_int, fresh_real,
                          fresh_bool, is_concrete, hdecide, choose, time_const, Exact)
from symex import symbytes, stubs, vtime
from symex.symbytes import SymBytes, SymBytesIO, SymStr, utf8_encode_cps
import scales.mux.sink as mux_mod
import scales.thriftmux.sink as tmux_mod
import scales.thriftmux.serializer as tser_mod
import scales.message as msg_mod
from scales.thriftmux.protocol import MessageType, Rstatus
from scales.constants import ChannelState, TransportHeaders, SinkProperties
from scales.message import MethodCallMessage, MethodReturnMessage, MethodDiscardMessage, Deadline, ServerError
from .fakes import Terminal, new_call, OneProvider
from .c11 import Sock

PROPERTY = 'C13'
INFO = dict(
  explanation='The real ClientIdInterceptorSink -> ThriftMuxMessageSerializerSink (MessageSerializer._Marshal_Tdispatch, _WriteContext, '
              '_Marshal_Tdiscarded) -> thriftmux.SocketTransportSink (AsyncProcessRequest, _BuildHeader, _EncodeTag, Tag.Encode, '
              '_CreateDiscardMessage) run on symbolic inputs: tag (via a symbolic tag-pool high-water mark, and directly over [0,2^24)), '
              'message type byte, context keys/values as text with SYMBOLIC CODE POINTS over all of Unicode (incl. empty strings and keys '
              'starting with "__"), client id, deadline (symbolic real), opaque Thrift payload (symbolic bytes). The produced frame is '
              "decoded by the harness's own mux decoder: 4-byte length = bytes that follow; type; tag; every context key/value equals the "
              'UTF-8 of what was supplied (own decoder back to code points); empty dst/dtab; payload; discard body = tag + reason. '
              'ReadHeader(_BuildHeader(tag,t,n)[4:]) == (t, tag) for every tag and every reply type byte; _Unmarshal_Rdispatch '
              'dispatches OK/ERROR/NACK with reply contexts skipped for symbolic status bytes.',
  bounds={'quick': 'contexts: <=1 caller entry x <=2 characters per key/value (+ client id <=2 chars + deadline); payload <=3 bytes; tag/type/lengths full range; 2 different requests marshalled at symbolic instants while the transport is still opening',
          'thorough': '<=2 caller entries x <=3 characters; payload <=4 bytes'},
  outside=['longer strings / more entries than the bound', 'the inner Thrift call bytes (opaque blob here; C14)', 'lone surrogates in text (cannot be encoded at all)'],
  stubs=['struct.pack/unpack -> symbolic big-endian model with range errors (3.4), validated against CPython struct',
         'BytesIO -> SymBytesIO (3.5)', 'str.encode(utf-8) on symbolic text -> SymStr model forking on the UTF-8 length class of each code point (3.6)',
         'message.Long -> truncation on symbolic reals; time.time -> symbolic now', 'SerializeThriftCall/DeserializeThriftCall -> opaque blob writer / marker',
         'socket: recorder; frames are taken from the send queue'],
  assumptions=['A2 exact real arithmetic for the deadline nanosecond conversion'],
)
EXPECT_COVERS = ['requests-marshalled-while-transport-opening', 'ctx-non-ascii-2byte', 'ctx-non-ascii-3byte', 'ctx-non-ascii-4byte', 'ctx-empty-string', 'ctx-hidden-key',
                 'header-type-127', 'header-negative-type', 'rdispatch-ok', 'rdispatch-nack', 'rdispatch-error', 'discard-frame']


def install_models():
  for m in (mux_mod, tmux_mod, tser_mod):
    symbytes.install(m)
    if hasattr(m, 'BytesIO'): m.BytesIO = SymBytesIO
  msg_mod.Long = stubs.sym_int
  tmux_mod.Deadline = msg_mod.Deadline      # (the stack scenarios replace it by a zero-writing stub; undo that here)


def jobs(tier):
  js = []
  # contexts: shapes (entries, key chars, value chars); client id separately
  shapes = [(0, 0, 0, c) for c in (0, 1, 2)]
  if tier == 'quick':
    shapes += [(1, k, v, 0) for k in range(3) for v in range(3)]
  else:
    shapes += [(1, k, v, 0) for k in range(4) for v in range(4)] + [(2, k, v, 0) for k in range(3) for v in range(3)] + [(0, 0, 0, 3)]
  for ne, kc, vc, cid in shapes:
    nch = ne * (kc + vc) + cid
    js.append(dict(name='dispatch-e%d-k%d-v%d-c%d' % (ne, kc, vc, cid), op='dispatch', ne=ne, kc=kc, vc=vc,
                   cid=cid, pl=3 if tier == 'quick' else 4, cost=4 ** nch,
                   shards=1 if nch < 4 else (16 if nch < 6 else 64), shard_depth=8 if nch < 6 else 12))
  js.append(dict(name='header', op='header', cost=5))
  js.append(dict(name='discard', op='discard', cost=5))
  for nctx in (0, 1, 2):
    js.append(dict(name='rdispatch-c%d' % nctx, op='rdispatch', nctx=nctx, cost=5))
  js.append(dict(name='rerror', op='rerror', cost=1))
  js.append(dict(name='concurrent-during-open', op='duringopen', cost=50))
  return js


# ----------------------------------------------------------------- the harness's own mux codec
class Rd(object):
  def __init__(self, b): self.b = SymBytes.of(b); self.p = 0
  def u(self, n, signed=False):
    v = symbytes._bytes_int(list(self.b.b[self.p:self.p + n]), n, signed)
    self.p += n
    return v
  def i16(self):
    v = self.u(2)
    return v       # lengths are non-negative in every well-formed frame; checked by caller
  def take(self, n):
    out = self.b[self.p:self.p + n]; self.p += n; return out
  def left(self): return len(self.b) - self.p


def utf8_decode(bs):
  """own UTF-8 decoder over (symbolic) bytes -> list of code points, or None if malformed"""
  out = []; i = 0; n = len(bs)
  while i < n:
    b0 = bs[i]
    if bool(b0 < 0x80): out.append(b0); i += 1
    elif bool(sand(b0 >= 0xC0, b0 < 0xE0)):
      if i + 1 >= n: return None
      out.append((b0 - 0xC0) * 64 + (bs[i + 1] - 0x80)); i += 2
    elif bool(sand(b0 >= 0xE0, b0 < 0xF0)):
      if i + 2 >= n: return None
      out.append((b0 - 0xE0) * 4096 + (bs[i + 1] - 0x80) * 64 + (bs[i + 2] - 0x80)); i += 3
    elif bool(b0 >= 0xF0):
      if i + 3 >= n: return None
      out.append((b0 - 0xF0) * 262144 + (bs[i + 1] - 0x80) * 4096 + (bs[i + 2] - 0x80) * 64 + (bs[i + 3] - 0x80)); i += 4
    else:
      return None
  return out


def cps_of(s):
  return list(s.cps) if isinstance(s, SymStr) else [ord(c) for c in s]


def text_matches(bs, s):
  got = utf8_decode(bs)
  want = cps_of(s)
  if got is None or len(got) != len(want): return False
  return sand(*[g == w for g, w in zip(got, want)]) if want else True


def make_body(job):
  op = job['op']
  def body():
    install_models()
    if op == 'dispatch':
      ne, kc, vc = job['ne'], job['kc'], job['vc']
      now = fresh_real('now', 0, 4 * 10 ** 9)
      time.time = lambda: now
      try:
        run_dispatch(job, ne, kc, vc, now)
      finally:
        time.time = vtime.now
    elif op == 'header':
      s = tmux_mod.SocketTransportSink(Sock(), 'svc')
      tag = fresh_int('tag', 0, 2 ** 24 - 1)
      mt = fresh_int('mtype', -128, 127)
      n = fresh_int('data_len', 0, 2 ** 31 - 1 - 4)
      h = SymBytes.of(s._BuildHeader(tag, mt, n))
      check('header.size', len(h) == 8)
      r = Rd(h)
      check('header.length-prefix', r.u(4) == n + 4)
      tb = r.u(1)
      check('header.type-byte', tb == (mt + 256) % 256 if not is_concrete() else tb == mt % 256)
      check('header.tag', r.u(3) == tag)
      # the reply-header reader inverts the writer for every reply type (negative types and BAD_Rerr = 127)
      assume(sor(mt < 0, mt == 127))
      if bool(mt == 127): cover('header-type-127')
      else: cover('header-negative-type')
      got_t, got_tag = tmux_mod.ThriftMuxMessageSerializerSink.ReadHeader(SymBytesIO(h[4:]))
      check('readheader.type', got_t == mt)
      check('readheader.tag', got_tag == tag)
    elif op == 'discard':
      s = tmux_mod.SocketTransportSink(Sock(), 'svc'); s._Init(); s._state = ChannelState.Open
      tag = fresh_int('tag', 2, 2 ** 24 - 2)
      # the request with that tag is outstanding (written, unanswered) on the open connection
      from scales.sink import ClientMessageSinkStack
      s._tag_map[SymInt(tag) if not is_concrete() and not isinstance(tag, SymInt) else tag] = (ClientMessageSinkStack(), 0, {})
      s._OnTimeout(tag)
      check('discard.queued', s._send_queue.qsize() == 1)
      if s._send_queue.qsize() != 1: return
      payload, props = s._send_queue.get_nowait()
      b = SymBytes.of(payload); r = Rd(b)
      check('discard.length-prefix', r.u(4) == len(b) - 4)
      check('discard.type', r.u(1) == MessageType.Tdiscarded)
      check('discard.own-tag-zero', r.u(3) == 0)
      check('discard.names-tag', r.u(3) == tag)
      check('discard.reason', SymBytes.of(r.take(r.left())) == 'Client timeout'.encode('utf-8'))
      cover('discard-frame')
    elif op == 'rdispatch':
      nctx = job['nctx']
      ser = tser_mod.MessageSerializer(None)
      class TS(object):
        def DeserializeThriftCall(self, buf):
          self.pos = buf.tell(); return 'THRIFT'
      ser._thrift_serializer = TS()
      status = fresh_int('status', -128, 127)
      body_b = symbytes.sym_pack('!bh', status, nctx)
      for c in range(nctx):
        for part in ('k', 'v'):
          ln = choose('len_%s%d' % (part, c), 3)
          body_b = body_b + symbytes.sym_pack('!h', ln) + SymBytes([fresh_int('b_%s%d_%d' % (part, c, i), 0, 255) for i in range(ln)])
      start = len(body_b)
      tail = b'oops'
      buf = SymBytesIO(body_b + tail)
      out = ser.Unmarshal(0, MessageType.Rdispatch, buf)
      if bool(status == Rstatus.OK):
        cover('rdispatch-ok')
        check('rdispatch.ok-to-thrift', out == 'THRIFT' and ser._thrift_serializer.pos == start)
      elif bool(status == Rstatus.NACK):
        cover('rdispatch-nack')
        check('rdispatch.nack', isinstance(out, MethodReturnMessage) and isinstance(out.error, ServerError) and 'NACK' in str(out.error))
      else:
        cover('rdispatch-error')
        check('rdispatch.error-text', isinstance(out, MethodReturnMessage) and isinstance(out.error, ServerError) and str(out.error) == 'oops')
    elif op == 'duringopen':
      # two different requests pass the serializer sink while the transport underneath is still opening (the
      # transport parks them until the open completes): each frame must carry what was supplied for ITS request
      import gevent
      from symex import net as netm
      from . import stacks
      e = stacks.setup()
      import io
      tmux_mod.BytesIO = io.BytesIO; mux_mod.BytesIO = io.BytesIO
      import struct as _st
      for m in (mux_mod, tmux_mod, tser_mod): m.pack = _st.pack; m.unpack = _st.unpack
      L = fresh_real('open_latency', 0, 3, lo_strict=True)
      script = netm.Script(plan=lambda i, p: ('never',))
      frames = []
      class RawPeer(netm.MuxPeer):
        def on_frame(self, frame):
          if frame[0] == 2: frames.append(frame)
          else: netm.MuxPeer.on_frame(self, frame)
      e.net.endpoint('a', 1, peer=lambda s: RawPeer(s, script), connect_delay=L)
      from .fakes import Ep
      transport = tmux_mod.SocketTransportSink.Builder().CreateSink({SinkProperties.Endpoint: Ep('a', 1), SinkProperties.Label: 'svc'})
      class TS(object):
        def SerializeThriftCall(self, msg, buf): buf.write(blobs[id(msg)])
      ser_sink = tmux_mod.ThriftMuxMessageSerializerSink(OneProvider(transport), None, {SinkProperties.Label: 'svc', SinkProperties.ServiceInterface: None})
      ser_sink._serializer._thrift_serializer = TS()
      transport.Open()
      sent = []; blobs = {}
      def issue(i):
        st, term, msg = new_call()
        msg.properties['caller'] = 'caller-%d' % i
        blobs[id(msg)] = b'PAYLOAD-%d' % i
        sent.append(msg)
        ser_sink.AsyncProcessRequest(st, msg, None, {})
      for i in range(2):
        at = fresh_real('request_at%d' % i, 0, 3)
        gevent.spawn_later(at, issue, i)
      gevent.sleep(8)
      cover('requests-marshalled-while-transport-opening')
      check('duringopen.both-frames-sent', len(frames) == 2)
      for msg in sent:
        tag = msg.properties.get(mux_mod.Tag.KEY)
        mine = [f for f in frames if int.from_bytes(f[1:4], 'big') == tag]
        check('duringopen.one-frame-per-tag', len(mine) == 1)
        if len(mine) == 1:
          check('duringopen.frame-carries-own-context', msg.properties['caller'].encode() in mine[0] and mine[0].endswith(blobs[id(msg)]))
      check('no-greenlet-error', not vtime.ERRORS)
      transport.Close()
    elif op == 'rerror':
      ser = tser_mod.MessageSerializer(None)
      for t in (MessageType.Rerr, MessageType.BAD_Rerr):
        out = ser.Unmarshal(0, t, SymBytesIO(b'why'))
        check('rerror.%d' % t, isinstance(out.error, ServerError) and str(out.error) == 'why')
  return body


def run_dispatch(job, ne, kc, vc, now):
  pl = job['pl']
  blob = SymBytes([fresh_int('payload%d' % i, 0, 255) for i in range(pl)])
  class TS(object):
    def SerializeThriftCall(self, msg, buf): buf.write(blob)
  sock = Sock()
  transport = tmux_mod.SocketTransportSink(sock, 'svc'); transport._Init(); transport._state = ChannelState.Open
  nxt = fresh_int('next', 1, 2 ** 24 - 3)
  transport._tag_pool._next = nxt
  props = {SinkProperties.Label: 'svc', SinkProperties.ServiceInterface: None}
  ser_sink = tmux_mod.ThriftMuxMessageSerializerSink(OneProvider(transport), None, {SinkProperties.Label: 'svc', SinkProperties.ServiceInterface: None})
  ser_sink._serializer._thrift_serializer = TS()
  cid = SymStr.fresh('client_id', job['cid'])
  P = tmux_mod.ClientIdInterceptorSink.Builder.PARAMS_CLASS
  top = tmux_mod.ClientIdInterceptorSink(OneProvider(ser_sink), P(client_id=cid), props)
  st, term, msg = new_call()
  supplied = []
  for e in range(ne):
    k = SymStr.fresh('key%d' % e, kc); v = SymStr.fresh('val%d' % e, vc)
    msg.properties[k] = v
    supplied.append((k, v))
  msg.properties['__hidden'] = 'x'
  deadline = fresh_real('deadline', 0, 4 * 10 ** 9)
  # a deadline of exactly 0 means "no deadline" to the serializer sink
  has_deadline = bool(deadline > 0) if not isinstance(deadline, bool) else deadline
  msg.properties[Deadline.KEY] = deadline
  top.AsyncProcessRequest(st, msg, None, {})
  check('dispatch.no-error', len(term.got) == 0)
  check('dispatch.queued', transport._send_queue.qsize() == 1)
  if transport._send_queue.qsize() != 1: return
  payload, _ = transport._send_queue.get()
  b = SymBytes.of(payload); r = Rd(b)
  check('frame.length-prefix', r.u(4) == len(b) - 4)
  check('frame.type', r.u(1) == MessageType.Tdispatch)
  check('frame.tag', r.u(3) == nxt + 1)
  # contexts: what the caller supplied (public properties; later duplicates of an equal key replace
  # earlier ones), the client id and the deadline
  want = {}
  for k, v in msg.properties.items():
    hidden = k.startswith('__')
    if hidden:
      if isinstance(k, SymStr): cover('ctx-hidden-key')
      continue
    want[k] = v
  if has_deadline: want['com.twitter.finagle.Deadline'] = 'DEADLINE'
  nctx = r.u(2)
  check('ctx.count', nctx == len(want))
  ok_struct = True
  seen = []
  for i in range(len(want)):
    if r.left() < 2: ok_struct = False; break
    kl = r.u(2)
    kl_c = kl if isinstance(kl, int) else kl.unique()
    if kl_c is None or kl_c < 0 or r.left() < kl_c: ok_struct = False; break
    kb = r.take(kl_c)
    if r.left() < 2: ok_struct = False; break
    vl = r.u(2)
    vl_c = vl if isinstance(vl, int) else vl.unique()
    if vl_c is None or vl_c < 0 or r.left() < vl_c: ok_struct = False; break
    vb = r.take(vl_c)
    seen.append((kb, vb))
  check('ctx.well-formed', ok_struct)
  if not ok_struct: return
  # every supplied entry appears with byte-exact key and value
  for k, v in want.items():
    found = False
    for kb, vb in seen:
      m = text_matches(kb, k)
      if m is False: continue
      if bool(m):
        found = True
        if v == 'DEADLINE' and k == 'com.twitter.finagle.Deadline':
          check('ctx.deadline-size', len(vb) == 16)
          if len(vb) == 16:
            rr = Rd(vb)
            ts = rr.u(8, True); to = rr.u(8, True)
            check('ctx.deadline-timestamp', ts == stubs.sym_int(now) * 1000000000)
            check('ctx.deadline-value', to == stubs.sym_int(deadline * 1000000000))
        else:
          check('ctx.value-bytes', text_matches(vb, v))
          for cp in cps_of(v) + cps_of(k):
            if not isinstance(cp, int):
              if bool(cp >= 0x10000): cover('ctx-non-ascii-4byte')
              elif bool(cp >= 0x800): cover('ctx-non-ascii-3byte')
              elif bool(cp >= 0x80): cover('ctx-non-ascii-2byte')
          if len(cps_of(v)) == 0 or len(cps_of(k)) == 0: cover('ctx-empty-string')
        break
    check('ctx.key-present', found)
  check('frame.dst-empty', r.u(2) == 0)
  check('frame.dtab-empty', r.u(2) == 0)
  check('frame.payload', SymBytes.of(r.take(r.left())) == blob)
