"""C12 — timed-out calls are never transmitted afterwards; sent ones are discarded.
Real stacks; the fake TCP layer logs (virtual time, bytes) of everything written; the deadline lands
before/after each hop of the request path by solver decision."""
import gevent
from symex.values import (check, cover, assume, sand, sor, snot, implies, fresh_real, fresh_int, choose, hdecide, is_concrete)
from symex import vtime, stubs, net as netm
from . import stacks
from .c01 import peer_cls, client
from scales.message import TimeoutError as ScalesTimeout
from scales.constants import SinkRole
from scales.pool import WatermarkPoolSink

PROPERTY = 'C12'
INFO = dict(
  explanation='The real Thrift / ThriftMux stacks from the public builders; every call carries a unique marker argument so the bytes of its '
              'request can be recognised in the wire log of the fake TCP layer (virtual time, connection, bytes). The time-out T and the '
              'latency of one hop are symbolic, so that the deadline falls before or after that hop by solver decision: waiting for the client '
              'to open (slow first connect), waiting at the balancer open gate (message handed to the sink chain directly with StaticDispatchMessage), waiting in the pool queue behind another call (max_watermark=1), waiting for a second connection '
              'to connect, waiting in the multiplexed send queue behind a slow write (back-pressure), and on the wire. Oracle: for every call '
              'that was handed TimeoutError at time tc no write containing its marker happens at a time > tc; for ThriftMux, if the request was '
              'written before tc and the connection is still open, a Tdiscarded frame naming exactly its tag is written (and none for requests '
              'never written).',
  bounds={'quick': 'one hop per scenario (client open, balancer open gate, pool queue, second connect, mux send queue behind a blocked write, own blocked write, on the wire), <= 2 calls', 'thorough': 'as quick plus two calls waiting in the pool queue with independent symbolic time-outs'},
  outside=['several slow hops at once', 'the Kafka stack'],
  stubs=['as C01', 'fake sendall may block for a symbolic duration (back-pressure) in the send-queue scenario',
         'pool max_watermark=1 through the public builder ReplaceRole() in the pool-queue scenario'],
  assumptions=['A1-A5'],
)
EXPECT_COVERS = ['M:timeout-during-own-blocked-write', 'T:timeout-while-opening', 'T:timeout-in-pool-queue', 'T:timeout-while-connecting', 'M:timeout-in-send-queue',
                 'M:timeout-on-the-wire-discarded', 'M:timeout-while-opening', 'T:timeout-at-balancer-open-gate', 'M:timeout-at-balancer-open-gate']


def jobs(tier):
  js = []
  for k in ('T', 'M'):
    js.append(dict(name='%s-open-wait' % k, stack=k, sc='open', cost=100))
  for k in ('T', 'M'):
    js.append(dict(name='%s-balancer-open-gate' % k, stack=k, sc='gate', cost=100))
  js.append(dict(name='T-pool-queue', stack='T', sc='poolq', cost=2000, shards=8, shard_depth=3))
  js.append(dict(name='T-connect-wait', stack='T', sc='connect', cost=1000, shards=8, shard_depth=3))
  if tier != 'quick':
    js.append(dict(name='T-pool-queue-two-waiters', stack='T', sc='poolq', waiters=2, cost=20000, shards=32, shard_depth=5))
  js.append(dict(name='M-send-queue', stack='M', sc='sendq', cost=1000, shards=8, shard_depth=3))
  js.append(dict(name='M-on-the-wire', stack='M', sc='wire', cost=500, shards=4, shard_depth=2))
  js.append(dict(name='M-own-write-blocked', stack='M', sc='ownwrite', cost=500, shards=4, shard_depth=2))
  return js


def marker_writes(net, marker):
  m = marker.encode()
  return [(t, c) for (kind, t, c, b) in net.log if kind == 'tx' and m in b]


def judge(e, tag, marker, ar, script=None, mux=False):
  ev = stacks.events(ar)
  check(tag + '.completed-once', len(ev) == 1)
  if len(ev) != 1: return None
  tc, kind, val = ev[0]
  writes = marker_writes(e.net, marker)
  if kind == 'error' and isinstance(val, ScalesTimeout):
    for (tw, c) in writes:
      check(tag + '.no-transmission-after-timeout', tw <= tc)
    if mux:
      sent_before = [(tw, c) for (tw, c) in writes]
      mytag = [tg for (t, p, m, a, tg) in script.requests if a == [marker]]
      named = [d for d in script.discards if mytag and d[2] == mytag[0]]
      if sent_before and not any(k == 'close' and c is sent_before[0][1] for (k, t, c, b) in e.net.log):
        check(tag + '.discard-sent-for-written-request', len(named) == 1)
        if named: check(tag + '.discard-after-timeout', named[0][0] >= tc)
        return 'timeout-sent'
      check(tag + '.no-discard-for-unwritten-request', len(named) == 0 or bool(sent_before))
      return 'timeout-unsent'
    return 'timeout-sent' if writes else 'timeout-unsent'
  return kind


def make_body(job):
  k = job['stack']; sc = job['sc']; mux = (k == 'M')
  def body():
    e = stacks.setup()
    if sc == 'open':
      T = fresh_real('T', 0, 6, lo_strict=True); L = fresh_real('open_latency', 0, 8)
      script = netm.Script()
      e.net.endpoint('a', 1, peer=lambda s: peer_cls(k)(s, script), connect_delay=L)
      c = client(k, 'tcp://a:1', T, open_timeout=0)
      ar = c.hi_async('MARK0')
      gevent.sleep(30)
      out = judge(e, 'call', 'MARK0', ar, script, mux)
      if out == 'timeout-unsent': cover(k + ':timeout-while-opening')
      c.DispatcherClose()
    elif sc == 'gate':
      # a message handed to the sink chain directly (MessageDispatcher.StaticDispatchMessage, as the Kafka router does)
      # while the balancer is still opening waits behind the balancer's own open gate; its deadline lands before or
      # after the first connection is up
      from scales.dispatch import MessageDispatcher
      from scales.message import MethodCallMessage
      T = fresh_real('T', 0, 6, lo_strict=True); L = fresh_real('open_latency', 0, 8)
      script = netm.Script()
      e.net.endpoint('a', 1, peer=lambda s: peer_cls(k)(s, script), connect_delay=L)
      c = client(k, 'tcp://a:1', 30, open_timeout=0)
      t0 = vtime.now()
      msg = MethodCallMessage(c._dispatcher._service, 'hi', ('MARK0',), {})
      ar = MessageDispatcher.StaticDispatchMessage(c._dispatcher.next_sink, None, t0, t0 + T, msg)
      hdecide(T < L)
      gevent.sleep(30)
      out = judge(e, 'call', 'MARK0', ar, script, mux)
      if out == 'timeout-unsent': cover(k + ':timeout-at-balancer-open-gate')
      check('no-greenlet-error', not vtime.ERRORS)
      c.DispatcherClose()
    elif sc == 'poolq':
      T = fresh_real('T', 0, 6, lo_strict=True); dA = fresh_real('first_call_server_delay', 0, 10)
      script = netm.Script(plan=lambda i, p: ('reply', dA) if i == 0 else ('reply', 0))
      e.net.endpoint('a', 1, peer=lambda s: netm.ThriftPeer(s, script), connect_delay=0.1)
      from scales.thrift import Thrift
      b = Thrift.NewBuilder(stacks.Hello.Iface).SetUri('tcp://a:1').SetTimeout(20)
      c = b.ReplaceRole(SinkRole.Pool, WatermarkPoolSink.Builder(max_watermark=1)).Build()
      a = c.hi_async('MARKA')
      g = fresh_real('second_issue', 0, 4)
      if hdecide(g > 0): gevent.sleep(g)
      # the second call has its own (symbolic) timeout and waits in the pool queue behind the first
      bq = c._dispatcher.DispatchMethodCall('hi', ('MARKB',), {}, timeout=T)
      hdecide(g + T < dA)
      cq = None
      if job.get('waiters', 1) == 2:
        T2 = fresh_real('T2', 0, 6, lo_strict=True)
        cq = c._dispatcher.DispatchMethodCall('hi', ('MARKC',), {}, timeout=T2)
        hdecide(g + T2 < dA)
      gevent.sleep(40)
      judge(e, 'first', 'MARKA', a, script)
      if cq is not None: judge(e, 'queued2', 'MARKC', cq, script)
      out = judge(e, 'queued', 'MARKB', bq, script)
      if out == 'timeout-unsent': cover('T:timeout-in-pool-queue')
      check('no-greenlet-error', not vtime.ERRORS)
      c.DispatcherClose()
    elif sc == 'connect':
      T = fresh_real('T', 0, 6, lo_strict=True); L2 = fresh_real('second_connect_latency', 0, 8)
      script = netm.Script(plan=lambda i, p: ('reply', 15) if i == 0 else ('reply', 0))
      e.net.endpoint('a', 1, peer=lambda s: netm.ThriftPeer(s, script), connect_delay=lambda n: 0.1 if n == 0 else L2)
      c = stacks.thrift_client('tcp://a:1', 30)
      a = c.hi_async('MARKA')                 # occupies the first connection for 15 s
      gevent.sleep(1)
      bq = c._dispatcher.DispatchMethodCall('hi', ('MARKB',), {}, timeout=T)     # needs a second connection
      hdecide(T < L2)
      gevent.sleep(40)
      out = judge(e, 'second', 'MARKB', bq, script)
      if out == 'timeout-unsent': cover('T:timeout-while-connecting')
      c.DispatcherClose()
    elif sc == 'sendq':
      T = fresh_real('T', 0, 6, lo_strict=True); W = fresh_real('write_blocks_for', 0, 8)
      script = netm.Script()
      e.net.endpoint('a', 1, peer=lambda s: netm.MuxPeer(s, script), connect_delay=0.1)
      c = stacks.mux_client('tcp://a:1', 30)
      # back-pressure: the first application write blocks for W seconds
      conn = e.net.conns[0]
      orig = conn.sendall
      state = {'n': 0}
      def slow_sendall(data):
        if b'MARKA' in bytes(data): gevent.sleep(W)
        return orig(data)
      conn.sendall = slow_sendall
      a = c.hi_async('MARKA')
      g = fresh_real('second_issue', 0, 2)
      if hdecide(g > 0): gevent.sleep(g)
      bq = c._dispatcher.DispatchMethodCall('hi', ('MARKB',), {}, timeout=T)     # waits in the send queue behind the blocked write
      hdecide(g + T < W)
      gevent.sleep(25)
      out = judge(e, 'queued', 'MARKB', bq, script, mux=True)
      if out == 'timeout-unsent': cover('M:timeout-in-send-queue')
      check('no-greenlet-error', not vtime.ERRORS)
      c.DispatcherClose()
    elif sc == 'ownwrite':
      # the call's own write is blocked (back-pressure) when its deadline strikes; the write then completes on a
      # connection that is still open: the request is on the wire, so the server must be told to discard it
      T = fresh_real('T', 0, 6, lo_strict=True); W = fresh_real('write_blocks_for', 0, 8)
      script = netm.Script(plan=lambda i, p: ('never',))
      e.net.endpoint('a', 1, peer=lambda s: netm.MuxPeer(s, script), connect_delay=0.1)
      c = stacks.mux_client('tcp://a:1', T)
      conn = e.net.conns[0]
      orig = conn.sendall
      def slow_sendall(data):
        if b'MARKA' in bytes(data): gevent.sleep(W)
        return orig(data)
      conn.sendall = slow_sendall
      a = c.hi_async('MARKA')
      hdecide(T < W)
      gevent.sleep(25)
      ev = stacks.events(a)
      check('call.completed-once', len(ev) == 1)
      if len(ev) == 1 and isinstance(ev[0][2], ScalesTimeout):
        tc = ev[0][0]
        writes = marker_writes(e.net, 'MARKA')
        mytag = [tg for (t, p, m, aa, tg) in script.requests if aa == ['MARKA']]
        if writes:
          # bytes that were already being written when the deadline struck do reach the wire; the server has the
          # request, so a Tdiscarded naming its tag must follow
          named = [d for d in script.discards if mytag and d[2] == mytag[0]]
          check('ownwrite.discard-sent-for-written-request', len(named) == 1)
          if bool(T < W): cover('M:timeout-during-own-blocked-write')
      check('no-greenlet-error', not vtime.ERRORS)
      c.DispatcherClose()
    elif sc == 'wire':
      T = fresh_real('T', 0, 6, lo_strict=True); d = fresh_real('server_delay', 0, 10)
      script = netm.Script(plan=lambda i, p: ('reply', d))
      e.net.endpoint('a', 1, peer=lambda s: netm.MuxPeer(s, script), connect_delay=0.1)
      c = stacks.mux_client('tcp://a:1', T)
      g = fresh_real('issue_gap', 0, 2)
      if hdecide(g > 0): gevent.sleep(g)
      a = c.hi_async('MARKA')
      hdecide(d < T)
      gevent.sleep(25)
      out = judge(e, 'call', 'MARKA', a, script, mux=True)
      if out == 'timeout-sent': cover('M:timeout-on-the-wire-discarded')
      check('no-greenlet-error', not vtime.ERRORS)
      c.DispatcherClose()
  return body
