"""C16 — singleton pool and shared sinks keep one connection, opened and closed once."""
import logging, gc
logging.disable(logging.CRITICAL)
import gevent
from symex.values import (SymInt, check, cover, assume, sand, sor, snot, implies, siff, fresh_int, fresh_real, choose,
                          is_concrete, hdecide)
from symex import vtime
from scales.sink import RefCountedSink, SharedSinkProvider, ClientMessageSinkStack
from scales.pool.singleton import SingletonPoolSink
from scales.constants import ChannelState, SinkProperties
from scales.asynchronous import AsyncResult
from scales.observable import Observable
from scales.message import MethodReturnMessage, MethodCallMessage
from .fakes import Ep, Terminal

PROPERTY = 'C16'
INFO = dict(
  explanation='RefCountedSink: one inductive step of the real Open/Close from a SYMBOLIC reference count r >= 0 (underlying open iff r > 0): Open '
              'opens the underlying sink iff r = 0, Close is ignored iff r = 0 and closes the underlying sink iff r = 1; plus histories of k '
              'Open/Close calls from the real initial state against a reference counter. SharedSinkProvider: symbolic sharing keys (real '
              'WeakValueDictionary probed by symbolic equality): same key -> same object while a holder is alive, falsy key -> unshared, after '
              'the last holder is gone a fresh sink. SingletonPoolSink on the virtual loop: the underlying transport opens after a symbolic '
              'delay, requests arrive at symbolic instants (each in its own greenlet), the transport faults at a symbolic instant; oracle: never '
              'more than one live underlying sink, concurrent first requests share one CreateSink/Open, every request reaches the sink that is '
              'current, after a failure the next request creates exactly one fresh sink; histories of Open / Close by several holders, requests and failures '
              'against a holder counter: the first Open connects, later Opens create nothing, the connection is kept while a holder is left and closed (once) by the last Close.',
  bounds={'quick': 'ref count symbolic in [0, 10^6]; histories k <= 6; an underlying Close() that yields while another holder opens at a symbolic instant; sharing key stable after a fault; singleton: 2 requests + 1 fault; singleton Open/Close/request/failure/reply histories by several holders k <= 6', 'thorough': 'histories k <= 12; singleton: 3 requests + 1 fault; singleton holder histories k <= 8'},
  outside=['more than 3 concurrent requests on the singleton pool', 'Open() of the underlying transport failing (covered with the real transports in C08/C09)'],
  stubs=['fake underlying sinks recording Open/Close/CreateSink (3.12)', 'virtual loop (3.1)'],
  assumptions=['A1, A3'],
)
EXPECT_COVERS = ['shared-fault-then-same-key', 'refcount-open-during-close', 'refcount-first-open', 'refcount-surplus-close', 'refcount-last-close', 'shared-same-key', 'shared-different-key',
                 'singleton-concurrent-first', 'singleton-replaced-after-failure', 'singleton-first-open', 'singleton-second-holder-open',
                 'singleton-last-holder-close', 'singleton-close-with-holders-left', 'singleton-request-replaces-failed',
                 'singleton-late-reply-from-replaced-connection']


class Under(object):
  """underlying sink fake"""
  def __init__(self, open_delay=None):
    self.opens = 0; self.closes = 0; self.on_faulted = Observable(); self._st = ChannelState.Idle
    self.open_delay = open_delay; self._open_ar = None; self.reqs = []
  @property
  def state(self): return self._st
  @property
  def is_closed(self): return self._st == ChannelState.Closed
  def Open(self):
    self.opens += 1
    if self.open_delay is None:
      self._st = ChannelState.Open
      return AsyncResult.Complete()
    if self._open_ar is None:
      self._open_ar = AsyncResult()
      def done():
        if self._st == ChannelState.Idle: self._st = ChannelState.Open
        self._open_ar.set(True)
      gevent.spawn_later(self.open_delay, done)
    return self._open_ar
  def Close(self): self.closes += 1; self._st = ChannelState.Closed
  def Fault(self): self._st = ChannelState.Closed; self.on_faulted.Set('fault')
  def AsyncProcessRequest(self, st, msg, stream, headers): self.reqs.append((vtime.now(), st, self._st))


def jobs(tier):
  k = 6 if tier == 'quick' else 12
  js = [dict(name='refcount-step-open', op='rc-open', cost=1), dict(name='refcount-step-close', op='rc-close', cost=1),
        dict(name='refcount-history-k%d' % k, op='rc-hist', k=k, cost=2 ** k, shards=1 if k <= 6 else 32, shard_depth=5),
        dict(name='shared', op='shared', cost=5),
        dict(name='refcount-yielding-close', op='rc-yield', cost=50),
        dict(name='singleton-r2', op='singleton', n=2, cost=500, shards=8, shard_depth=4)]
  kh = 6 if tier == 'quick' else 8
  js.append(dict(name='singleton-holders-k%d' % kh, op='singleton-holders', k=kh, cost=5 ** kh, shards=8 if kh <= 5 else 64, shard_depth=6))
  if tier != 'quick':
    js.append(dict(name='singleton-r3', op='singleton', n=3, cost=20000, shards=32, shard_depth=6))
  return js


def make_body(job):
  op = job['op']
  def body():
    vtime.setup()
    if op in ('rc-open', 'rc-close'):
      u = Under(); s = RefCountedSink(u)
      r = fresh_int('ref_count', 0, 10 ** 6)
      s._ref_count = r
      was_open = bool(r > 0)
      if was_open: s._open_ar = AsyncResult.Complete(); u._st = ChannelState.Open
      if op == 'rc-open':
        ar = s.Open()
        check('open.count', s._ref_count == r + 1)
        check('open.underlying-opened-iff-first', u.opens == (0 if was_open else 1))
        check('open.result', ar is not None)
        if not was_open: cover('refcount-first-open')
      else:
        s.Close()
        if not was_open:
          cover('refcount-surplus-close')
          check('close.surplus-ignored', bool(s._ref_count == 0) and u.closes == 0)
        else:
          check('close.count', s._ref_count == r - 1)
          last = bool(r == 1)
          if last: cover('refcount-last-close')
          check('close.underlying-closed-iff-last', u.closes == (1 if last else 0))
      check('inv.underlying-open-iff-held', siff(s._ref_count > 0, u._st == ChannelState.Open) if op == 'rc-open' or True else True)
    elif op == 'rc-hist':
      u = Under(); s = RefCountedSink(u); ref = 0; opens = 0; closes = 0
      for i in range(job['k']):
        if choose('op%d' % i, 2) == 0:
          s.Open(); 
          if ref == 0: opens += 1
          ref += 1
        else:
          s.Close()
          if ref == 1: closes += 1
          if ref > 0: ref -= 1
        check('hist.count', s._ref_count == ref)
        check('hist.underlying-opens', u.opens == opens)
        check('hist.underlying-closes', u.closes == closes)
    elif op == 'rc-yield':
      # the underlying Close() takes a while (it yields to the hub); another holder opens the shared sink at a symbolic
      # instant before / during / after that close
      class SlowUnder(Under):
        def Close(self):
          self.closes += 1; self.closing = True
          gevent.sleep(dur)
          self._st = ChannelState.Closed; self.closing = False
        def Open(self):
          self.opens += 1; self._st = ChannelState.Open
          return AsyncResult.Complete()
      dur = fresh_real('close_takes', 0, 2, lo_strict=True)
      u = SlowUnder(); u.closing = False
      s = RefCountedSink(u)
      s.Open()
      at_close = fresh_real('last_holder_closes_at', 0, 2)
      at_open = fresh_real('other_holder_opens_at', 0, 4)
      def other_open():
        if u.closing: cover('refcount-open-during-close')
        s.Open()
      gevent.spawn_later(at_close, s.Close)
      gevent.spawn_later(at_open, other_open)
      gevent.sleep(8)
      # afterwards exactly one holder is left (the second opener): the underlying sink must be open
      check('yield.count', s._ref_count == 1)
      check('yield.underlying-open-while-held', u._st == ChannelState.Open)
    elif op == 'shared':
      created = []
      class NP(object):
        next_provider = None
        def CreateSink(self, props):
          x = Under(); created.append(x); return x
        sink_class = Under
      k1 = fresh_int('key1', 0, 3); k2 = fresh_int('key2', 0, 3)
      sp = SharedSinkProvider(lambda props: props['key'])
      sp.next_provider = NP()
      a = sp.CreateSink({'key': k1})
      b = sp.CreateSink({'key': k2})
      same = bool(sand(k1 == k2, snot(k1 == 0)))
      if same: cover('shared-same-key')
      else: cover('shared-different-key')
      check('shared.same-key-same-sink', (a is b) == same)
      check('shared.created-count', len(created) == (1 if same else 2))
      if bool(k1 == 0): check('shared.falsy-key-unshared', not isinstance(a, RefCountedSink))
      else: check('shared.wrapped', isinstance(a, RefCountedSink))
      # while a holder is alive the same key keeps yielding the same sink
      c = sp.CreateSink({'key': k1})
      check('shared.stable-while-held', bool(k1 == 0) or c is a)
      # ... also after the shared connection has signalled a fault
      if isinstance(a, RefCountedSink):
        a.Open()
        a.on_faulted.Set('fault')
        for _ in range(4): gevent.sleep(0)
        c2 = sp.CreateSink({'key': k1})
        cover('shared-fault-then-same-key')
        check('shared.stable-after-fault-while-held', c2 is a)
        del c2
      n_before = len(created)
      c2 = None
      del a, b, c
      gc.collect()
      d = sp.CreateSink({'key': k1})
      check('shared.fresh-after-last-holder', len(created) == n_before + 1)
    elif op == 'singleton-holders':
      # histories of Open / Close by several holders, requests and failures of the one connection, against a holder counter
      created = []
      class TP(object):
        next_provider = None
        def CreateSink(self, props):
          x = Under(None); created.append(x); return x
        sink_class = Under
      pool = SingletonPoolSink(TP(), None, {SinkProperties.Endpoint: Ep('h', 1), SinkProperties.Label: 'x'})
      holders = 0; unanswered = []
      def live(): return [x for x in created if not x.is_closed]
      for i in range(job['k']):
        o = choose('op%d' % i, 5)
        n_created = len(created); before = live()
        if o == 0:
          ar = pool.Open()
          for _ in range(3): gevent.sleep(0)
          check('holders.open-completes', ar.ready() and ar.exception is None)
          if holders == 0:
            cover('singleton-first-open')
            check('holders.first-open-connects', len(live()) == 1 and live()[0].opens >= 1)
          else:
            cover('singleton-second-holder-open')
            check('holders.later-open-creates-nothing', len(created) == n_created or not before)
          holders += 1
        elif o == 1:
          if holders == 0: check('holders.at-most-one-live', len(live()) <= 1); continue   # not an admissible step: skipped
          pool.Close()
          for _ in range(3): gevent.sleep(0)
          holders -= 1
          if holders == 0:
            cover('singleton-last-holder-close')
            check('holders.last-close-closes-connection', not live())
            check('holders.last-close-closes-once', all(x.closes <= 1 for x in created))
          else:
            cover('singleton-close-with-holders-left')
            check('holders.connection-kept-while-held', live() == before and all(x.closes == 0 for x in before))
        elif o == 2:
          if holders == 0: check('holders.at-most-one-live', len(live()) <= 1); continue   # not an admissible step: skipped
          st = ClientMessageSinkStack(); t = Terminal(); st.Push(t)
          pool.AsyncProcessRequest(st, MethodCallMessage(None, 'm', (), {}), None, None)
          for _ in range(3): gevent.sleep(0)
          served = [x for x in created if any(r[1] is st for r in x.reqs)]
          if served: unanswered.append((st, t, served[0]))
          check('holders.request-served-by-live-connection', len(served) == 1 and served[0] in live())
          if before: check('holders.request-shares-connection', len(created) == n_created and served == before)
          else:
            cover('singleton-request-replaces-failed')
            check('holders.request-replaces-failed-connection', len(created) == n_created + 1)
        elif o == 3:
          if not before: check('holders.at-most-one-live', len(live()) <= 1); continue
          before[0].Fault()
          for _ in range(3): gevent.sleep(0)
        else:
          # the reply (or the failure) of the oldest unanswered request comes back up its sink stack, possibly from a
          # connection that has failed and been replaced meanwhile
          if not unanswered: check('holders.at-most-one-live', len(live()) <= 1); continue
          st, t, via = unanswered.pop(0)
          if via.is_closed and before and via is not before[0]: cover('singleton-late-reply-from-replaced-connection')
          st.AsyncProcessResponseMessage(MethodReturnMessage('r'))
          for _ in range(3): gevent.sleep(0)
          check('holders.reply-delivered-once', len(t.got) == 1)
          check('holders.reply-keeps-current-connection', live() == before and all(x.closes == 0 for x in before))
        check('holders.at-most-one-live', len(live()) <= 1)
        check('holders.closed-at-most-once', all(x.closes <= 1 for x in created))
      check('no-greenlet-error', not vtime.ERRORS)
    elif op == 'singleton':
      n = job['n']
      created = []
      open_delay = fresh_real('open_delay', 0, 2)
      class TP(object):
        next_provider = None
        def CreateSink(self, props):
          x = Under(open_delay if hdecide(open_delay > 0) else None); created.append(x); return x
        sink_class = Under
      pool = SingletonPoolSink(TP(), None, {SinkProperties.Endpoint: Ep('h', 1), SinkProperties.Label: 'x'})
      log = []
      def request(i):
        st = ClientMessageSinkStack(); t = Terminal(); st.Push(t)
        live_before = [x for x in created if not x.is_closed]
        pool.AsyncProcessRequest(st, MethodCallMessage(None, 'm', (), {}), None, None)
        served = [x for x in created if any(r[1] is st for r in x.reqs)]
        log.append((i, vtime.now(), served, t))
      times = []
      for i in range(n):
        d = fresh_real('req_at%d' % i, 0, 4)
        times.append(d)
        gevent.spawn_later(d, request, i)
      fault_at = fresh_real('fault_at', 0, 4)
      faulted = []
      def fault():
        livex = [x for x in created if not x.is_closed]
        if livex:
          livex[0].Fault(); faulted.append(livex[0])
      gevent.spawn_later(fault_at, fault)
      def monitor():
        # at every scheduler round: at most one live underlying sink
        pass
      gevent.sleep(10)
      check('singleton.all-requests-processed', len(log) == n)
      for i, t, served, term in log:
        ok = len(served) == 1 or (len(served) == 0 and len(term.got) == 1)
        check('singleton.each-request-one-sink', ok)
      # at most one live sink: a new sink is only created when every earlier one is closed
      for j, x in enumerate(created):
        check('singleton.previous-closed-before-next', all(y.is_closed for y in created[:j]) or j == 0)
      live_end = [x for x in created if not x.is_closed]
      check('singleton.at-most-one-live', len(live_end) <= 1)
      first_two_before_open = n >= 2 and len(created) >= 1
      if len(created) == 1 and created[0].opens >= 2: cover('singleton-concurrent-first')
      if faulted and len(created) >= 2: cover('singleton-replaced-after-failure')
      check('singleton.sinks-created', len(created) <= 1 + len(faulted))
      # a request issued strictly after the fault never lands on the faulted sink: it gets a fresh one
      for i, t, served, term in log:
        if faulted and bool(times[i] > fault_at):
          check('singleton.fresh-sink-after-failure', all(x is not faulted[0] for x in served) and len(served) == 1)
      check('no-greenlet-error', not vtime.ERRORS)
  return body
