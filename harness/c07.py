"""C07 — the watermark pool bounds concurrency, queues FIFO and never leaks capacity.
(a) one inductive step of the real WatermarkPoolSink from an arbitrary invariant-satisfying state
    with a SYMBOLIC configuration (min_watermark, max_watermark, max_queue_len);
(b) short histories from the real initial state (public API), symbolic configuration."""
import logging
logging.disable(logging.CRITICAL)
import gevent
from symex.values import (SymInt, check, cover, assume, sand, sor, snot, implies, siff, fresh_int, choose, is_concrete, hdecide)
from symex import vtime
from scales.pool.watermark import WatermarkPoolSink, QueuingMessageSink, MaxWaitersError
from scales.constants import SinkProperties, ChannelState
from scales.sink import ClientMessageSinkStack, ClientMessageSink, FailingMessageSink
from scales.asynchronous import AsyncResult
from scales.message import MethodReturnMessage, TimeoutError as STimeout, MethodCallMessage
from scales.dispatch import ServiceClosedError
from scales.observable import Observable
from .fakes import Ep, Terminal

PROPERTY = 'C07'
INFO = dict(
  explanation='(a) Inductive step on the real WatermarkPoolSink (_Get/_Dequeue/_Release/_ProcessQueue/Close/PoolSink.AsyncProcessRequest/'
              'AsyncProcessResponse): the configuration (min_watermark <= max_watermark, max_queue_len) is SYMBOLIC, so size < max, '
              'waiters+1 > max_queue_len, size <= min are solver decisions; the shape (cached a, lent b, waiters w, which waiters already '
              'timed out, which cached/lent connection is dead) is explicit per job. Pre-states satisfy the accounting invariant '
              '(size = a+b = live connections <= max; cached only while size <= min; waiters only at size = max with empty cache; w <= qlen). '
              'Operations: arrival, completion of a lent request (connection alive or found dead), time-out of a queued request. Oracle: '
              'invariant re-established; an arrival is served by a cached connection, else a new one iff size < max, else queued at the tail '
              'iff w < qlen, else failed at once with MaxWaitersError; on release the first waiter that has not timed out is started on that '
              'very connection in the same instant, timed-out waiters are skipped and the connection is not lost; with no waiter it is cached '
              'iff size <= min else closed and uncounted; a dead connection on release closes the pool and each live waiter receives exactly '
              'one ServiceClosedError; no connection ever carries two requests. (b) the same oracle after each of k public-API operations '
              'from the real initial state, including two completions in one scheduler slice.',
  bounds={'quick': '(a) a,b,w <= 2, config symbolic in [0..3]x[1..3]x[0..3]; (b) k <= 6 operations, <=3 concurrent requests, config in [0..3]^3; (c) 3 arrivals at symbolic instants while connections take a symbolic while to open',
          'thorough': '(a) a,b,w <= 3, config in [0..4]^3; (b) k <= 10 operations'},
  outside=['more cached / lent / waiting requests than the shape bound', 'Open() of a new connection that fails or blocks (connections open at once here; C08/C09)',
           're-opening a closed pool'],
  stubs=['fake connection provider/connections recording CreateSink/Open/Close/requests with a controllable state (3.12)',
         'gauge recording (VarzReceiver.SetVarz) is a no-op: gauges would hold symbolic ints; not the subject',
         'time-out of a queued request = what the real ClientTimeoutSink does: posting TimeoutError into its sink stack'],
  assumptions=['A1', 'pre-states = those satisfying the stated invariant (checked inductive); min_watermark <= max_watermark, max_watermark >= 1'],
)
EXPECT_COVERS = ['real-connection-dies-with-queued-waiter', 'timeout-while-connection-opening', 'arrival-while-connection-opening', 'arrive-cached', 'arrive-new', 'arrive-queued', 'arrive-max-waiters', 'arrive-dead-cached-discarded',
                 'release-to-waiter', 'release-skips-timed-out', 'release-cached', 'release-closed', 'release-dead-closes-pool',
                 'hist-two-completions-one-slice']


class Conn(object):
  n = 0
  def __init__(self, st=ChannelState.Open):
    Conn.n += 1; self.id = Conn.n; self._st = st; self.closed = 0; self.opened = 0; self.reqs = []; self.on_faulted = Observable()
    self.active = 0; self.double = False
  @property
  def state(self): return self._st
  @property
  def is_closed(self): return self._st == ChannelState.Closed
  def Open(self): self.opened += 1; return AsyncResult.Complete()
  def Close(self): self.closed += 1; self._st = ChannelState.Closed
  def AsyncProcessRequest(self, st, msg, stream, headers):
    self.reqs.append(st); self.active += 1
    if self.active > 1: self.double = True


class Prov(object):
  def __init__(self): self.created = []
  def CreateSink(self, props):
    s = Conn(ChannelState.Open); self.created.append(s); return s


def new_pool(mn, mx, ql):
  import scales.varz as vz
  vz.VarzReceiver.SetVarz = staticmethod(lambda *a: None)
  P = WatermarkPoolSink.Builder.PARAMS_CLASS
  prov = Prov()
  pool = WatermarkPoolSink(prov, P(min_watermark=mn, max_watermark=mx, max_queue_len=ql),
                           {SinkProperties.Label: 'm', SinkProperties.Endpoint: Ep('h', 1)})
  return pool, prov


def config(hi):
  mn = fresh_int('min', 0, hi); mx = fresh_int('max', 1, hi); ql = fresh_int('qlen', 0, hi)
  assume(mn <= mx)
  return mn, mx, ql


class St(object):
  pass


def build(a, b, w, dead_waiters, hi):
  mn, mx, ql = config(hi)
  pool, prov = new_pool(mn, mx, ql)
  pool._state = ChannelState.Open
  assume(sand(a + b <= mx, w <= ql))
  if a: assume(a + b <= mn)
  if w: assume(a + b == mx)
  S = St(); S.pool = pool; S.prov = prov; S.mn, S.mx, S.ql = mn, mx, ql
  pool._current_size = a + b
  S.cached = [Conn() for _ in range(a)]
  for c in S.cached: pool._cache.append(c)
  S.lent = []
  for _ in range(b):
    s = Conn(); st = ClientMessageSinkStack(); t = Terminal(); st.Push(t); st.Push(pool, s); s.reqs.append(st); s.active = 1
    S.lent.append((s, st, t))
  S.waiters = []
  for k in range(w):
    st = ClientMessageSinkStack(); t = Terminal(); st.Push(t); st.Push(pool, QueuingMessageSink(pool._waiters))
    pool._waiters.append((st, 'msg%d' % k, None, None)); S.waiters.append((st, t))
    if k in dead_waiters:
      st.AsyncProcessResponseMessage(MethodReturnMessage(error=STimeout()))
  return S


def all_conns(S):
  seen = []; out = []
  for c in S.cached + [s for s, _, _ in S.lent] + S.prov.created:
    if id(c) not in seen: seen.append(id(c)); out.append(c)
  return out


def live(S):
  return [c for c in all_conns(S) if not c.closed]


def jobs(tier):
  m = 2 if tier == 'quick' else 3
  hi = 3 if tier == 'quick' else 4
  js = []
  for a in range(0, m + 1):
    for b in range(0, m + 1):
      for w in range(0, m + 1):
        if a and w: continue
        if a + b > hi or (w and a + b < 1): continue
        # arrival, with every subset (by count) of cached connections already dead
        for dc in range(0, a + 1):
          js.append(dict(name='arrive-a%d-b%d-w%d-dc%d' % (a, b, w, dc), op='arrive', a=a, b=b, w=w, dc=dc, hi=hi, cost=2))
        if b:
          import itertools
          for nd in range(0, w + 1):
            for dead in itertools.combinations(range(w), nd):
              for sinkdead in (0, 1):
                js.append(dict(name='release-a%d-b%d-w%d-dead%s-%s' % (a, b, w, ''.join(map(str, dead)) or 'none', 'conndead' if sinkdead else 'ok'),
                               op='release', a=a, b=b, w=w, dead=list(dead), sinkdead=sinkdead, hi=hi, cost=2))
        for k in range(w):
          js.append(dict(name='timeout-a%d-b%d-w%d-k%d' % (a, b, w, k), op='timeout', a=a, b=b, w=w, k=k, hi=hi, cost=1))
  js.append(dict(name='open', op='open', hi=hi, cost=1))
  js.append(dict(name='real-transport-dies-with-waiter', op='realfault', cost=200))
  js.append(dict(name='slow-open-n3', op='slowopen', n=3, hi=2 if tier == 'quick' else hi, cost=3000, shards=16, shard_depth=4))
  kk = 6 if tier == 'quick' else 10
  js.append(dict(name='history-k%d' % kk, op='history', k=kk, hi=3, cost=5000,
                 shards=16 if tier == 'quick' else 128, shard_depth=8 if tier == 'quick' else 14))
  return js


def settle():
  for _ in range(6): gevent.sleep(0)


def inv_after(S, extra_lent=0, closed_pool=False):
  pool = S.pool
  L = live(S)
  check('no-connection-carries-two-requests', not any(c.double for c in all_conns(S)))
  if closed_pool: return
  check('inv.size-equals-live-connections', pool._current_size == len(L))
  check('inv.size-at-most-max', pool._current_size <= S.mx)
  check('inv.live-at-most-max', len(L) <= S.mx if not isinstance(S.mx, int) else len(L) <= S.mx)
  nc = len(pool._cache)
  check('inv.cache-only-below-min', sor(nc == 0, pool._current_size <= S.mn))
  check('inv.cache-members-live', all(not c.closed for c in pool._cache))
  nw = len(pool._waiters)
  check('inv.waiters-only-at-max', sor(nw == 0, sand(pool._current_size == S.mx, nc == 0)))
  check('inv.waiters-bounded', nw <= S.ql)


def make_body(job):
  op = job['op']
  def body():
    vtime.setup()
    Conn.n = 0
    if op == 'history':
      return history(job)
    if op == 'slowopen':
      return slow_open(job)
    if op == 'realfault':
      return real_fault(job)
    if op == 'open':
      mn, mx, ql = config(job['hi'])
      pool, prov = new_pool(mn, mx, ql)
      S = St(); S.pool = pool; S.prov = prov; S.mn, S.mx, S.ql = mn, mx, ql; S.cached = []; S.lent = []
      ar = pool.Open(); settle()
      check('open.completes', ar.ready() and ar.successful() and pool.state == ChannelState.Open)
      check('open.one-connection-created', len(prov.created) == 1)
      check('open.retains-at-most-min', siff(len(live(S)) == 1, mn >= 1))
      inv_after(S)
      return
    a, b, w = job['a'], job['b'], job['w']
    if op == 'arrive':
      S = build(a, b, w, (), job['hi'])
      for i in range(job['dc']): S.cached[i]._st = ChannelState.Closed
      if job['dc']: cover('arrive-dead-cached-discarded')
      live_cached = a - job['dc']
      st = ClientMessageSinkStack(); t = Terminal(); st.Push(t)
      S.pool.AsyncProcessRequest(st, MethodCallMessage(None, 'm', (), {}), None, None)
      settle()
      served = [c for c in all_conns(S) if any(r is st for r in c.reqs)]
      queued = [i for i, x in enumerate(S.pool._waiters) if x[0] is st]
      failed = len(t.got)
      check('arrive.exactly-one-outcome', len(served) + len(queued) + failed == 1)
      size0 = a + b - job['dc']           # dead cached connections no longer exist
      if live_cached:
        cover('arrive-cached')
        check('arrive.uses-cached', len(served) == 1 and served[0] in S.cached and not served[0].closed and not S.prov.created)
      elif bool(size0 < S.mx):
        cover('arrive-new')
        check('arrive.creates-when-below-max', len(served) == 1 and S.prov.created == served and served[0].opened == 1)
      elif bool(w + 1 <= S.ql):
        cover('arrive-queued')
        check('arrive.queued-at-tail', queued == [w] and not S.prov.created)
      else:
        cover('arrive-max-waiters')
        check('arrive.max-waiters-error', failed == 1 and isinstance(t.got[0][1].error, MaxWaitersError) and not S.prov.created and not queued)
      # a dead cached connection is either still sitting in the cache (to be found when its turn comes) or has been closed;
      # it is never dropped from the cache without being closed (which of the cached connections is examined first is the
      # implementation's choice)
      check('arrive.dead-cached-closed', all(S.cached[i].closed >= 1 or any(x is S.cached[i] for x in S.pool._cache) for i in range(job['dc'])))
      inv_after(S)
    elif op == 'release':
      dead = set(job['dead'])
      S = build(a, b, w, dead, job['hi'])
      s, st, t = S.lent[0]
      if job['sinkdead']: s._st = ChannelState.Closed
      s.active -= 1
      reply = MethodReturnMessage(return_value=1)
      st.AsyncProcessResponseMessage(reply)                     # the request completes
      t_release = vtime.now()
      settle()
      check('release.caller-completed-once', len(t.got) == 1 and t.got[0][1] is reply)
      alive = [k for k in range(w) if k not in dead]
      if job['sinkdead']:
        cover('release-dead-closes-pool')
        check('dead.pool-closed', S.pool.state == ChannelState.Closed)
        for k in range(w):
          got = S.waiters[k][1].got
          if k in dead:
            check('dead.timed-out-waiter-untouched', len(got) == 1 and isinstance(got[0][1].error, STimeout))
          else:
            check('dead.waiter-failed-exactly-once', len(got) == 1 and isinstance(got[0][1].error, ServiceClosedError))
        check('dead.cache-flushed', all(c.closed >= 1 for c in S.cached))
        check('dead.not-reused', len(s.reqs) == 1)
        inv_after(S, closed_pool=True)
        return
      if alive:
        cover('release-to-waiter')
        if dead and min(dead) < alive[0]: cover('release-skips-timed-out')
        k = alive[0]
        check('release.first-live-waiter-started-on-that-connection', len(s.reqs) == 2 and s.reqs[1] is S.waiters[k][0])
        check('release.same-instant', vtime.now() == t_release)
        check('release.connection-not-lost', not s.closed)
        check('release.later-waiters-keep-order', [x[0] for x in S.pool._waiters] == [S.waiters[j][0] for j in range(k + 1, w)])
        for j in alive[1:]:
          check('release.other-waiters-not-started', len(S.waiters[j][1].got) == 0 and not any(r is S.waiters[j][0] for c in all_conns(S) for r in c.reqs))
        check('release.size-unchanged', S.pool._current_size == a + b)
      else:
        check('release.timed-out-waiters-dropped', len(S.pool._waiters) == 0)
        keep = bool(a + b <= S.mn)
        if keep:
          cover('release-cached')
          check('release.cached-when-at-or-below-min', (not s.closed) and any(c is s for c in S.pool._cache) and bool(S.pool._current_size == a + b))
        else:
          cover('release-closed')
          check('release.closed-when-above-min', s.closed == 1 and not any(c is s for c in S.pool._cache) and bool(S.pool._current_size == a + b - 1))
        check('release.not-reused', len(s.reqs) == 1)
      inv_after(S)
    elif op == 'timeout':
      S = build(a, b, w, (), job['hi'])
      k = job['k']
      st, t = S.waiters[k]
      st.AsyncProcessResponseMessage(MethodReturnMessage(error=STimeout()))
      settle()
      check('timeout.delivered-once', len(t.got) == 1 and isinstance(t.got[0][1].error, STimeout))
      check('timeout.nothing-else-changes', bool(S.pool._current_size == a + b) and len(live(S)) == a + b and not S.prov.created and
            all(len(S.waiters[j][1].got) == 0 for j in range(w) if j != k))
      inv_after_relaxed(S)
  return body


def inv_after_relaxed(S):
  """after a waiter timed out it may linger in the queue until the next release"""
  check('no-connection-carries-two-requests', not any(c.double for c in all_conns(S)))
  check('inv.size-equals-live-connections', S.pool._current_size == len(live(S)))


# ------------------------------------------------------------------ (b) short histories, public API
def history(job):
  K = job['k']
  mn, mx, ql = config(job['hi'])
  pool, prov = new_pool(mn, mx, ql)
  S = St(); S.pool = pool; S.prov = prov; S.mn, S.mx, S.ql = mn, mx, ql; S.cached = []; S.lent = []
  pool.Open(); settle()
  reqs = []      # dict(st, term, state: 'lent'|'queued'|'done'|'failed', conn)
  def classify(r):
    if r['term'].got: r['state'] = 'done'; return
    conn = [c for c in all_conns(S) if r['st'] in c.reqs and c.reqs[-1] is r['st']]
    if conn: r['state'] = 'lent'; r['conn'] = conn[0]
    elif any(x[0] is r['st'] for x in pool._waiters): r['state'] = 'queued'
  for step in range(K):
    for r in reqs: classify(r)
    lent = [r for r in reqs if r['state'] == 'lent']
    queued = [r for r in reqs if r['state'] == 'queued']
    nops = 1 + len(lent) + len(queued) + (1 if len(lent) >= 2 else 0)
    c = choose('op%d' % step, nops)
    if c == 0:
      if len([r for r in reqs if r['state'] in ('lent', 'queued')]) >= 3: continue
      st = ClientMessageSinkStack(); t = Terminal(); st.Push(t)
      r = dict(st=st, term=t, state='new', conn=None, seq=len(reqs)); reqs.append(r)
      before_q = len(pool._waiters)
      pool.AsyncProcessRequest(st, MethodCallMessage(None, 'm', (), {}), None, None)
      settle(); classify(r)
      if r['state'] == 'done':
        check('hist.rejected-only-with-max-waiters', isinstance(t.got[0][1].error, MaxWaitersError) and bool(before_q + 1 > ql))
    elif c <= len(lent):
      r = lent[c - 1]
      dead = choose('conn_dead%d' % step, 2)
      if dead: r['conn']._st = ChannelState.Closed
      r['conn'].active -= 1
      r['st'].AsyncProcessResponseMessage(MethodReturnMessage(return_value=r['seq']))
      settle()
      if dead:
        check('hist.dead-closes-pool', pool.state == ChannelState.Closed)
        for q in queued:
          check('hist.dead-fails-waiters-once', len(q['term'].got) == 1 and isinstance(q['term'].got[0][1].error, ServiceClosedError))
        check('hist.no-double', not any(cn.double for cn in all_conns(S)))
        return
      if queued:
        first = queued[0]
        check('hist.first-waiter-started', r['conn'].reqs[-1] is first['st'])
    elif c <= len(lent) + len(queued):
      q = queued[c - 1 - len(lent)]
      q['st'].AsyncProcessResponseMessage(MethodReturnMessage(error=STimeout()))
      q['state'] = 'done'
      settle()
    else:
      # two completions in the same scheduler slice
      cover('hist-two-completions-one-slice')
      for r in lent[:2]:
        r['conn'].active -= 1
        r['st'].AsyncProcessResponseMessage(MethodReturnMessage(return_value=r['seq']))
      settle()
      live_q = [q for q in queued]
      for q in live_q[:2]:
        check('hist.both-waiters-started', any(q['st'] in cn.reqs for cn in all_conns(S)))
    # accounting after every step
    check('hist.no-double', not any(cn.double for cn in all_conns(S)))
    check('hist.size-equals-live', pool._current_size == len(live(S)))
    check('hist.size-at-most-max', pool._current_size <= mx)
    check('hist.no-greenlet-error', not vtime.ERRORS)
  # traffic stops: complete everything that is still lent; at most min connections remain
  for _ in range(4):
    for r in reqs: classify(r)
    lent = [r for r in reqs if r['state'] == 'lent']
    if not lent: break
    r = lent[0]
    r['conn'].active -= 1
    r['st'].AsyncProcessResponseMessage(MethodReturnMessage(return_value=0)); settle()
  for r in reqs: classify(r)
  if not [r for r in reqs if r['state'] in ('lent', 'queued')]:
    check('hist.idle-retains-at-most-min', len(live(S)) <= mn)
    check('hist.size-equals-live', pool._current_size == len(live(S)))
  check('hist.no-greenlet-error', not vtime.ERRORS)


def slow_open(job):
  """connections take a (symbolic) while to open; requests arrive from other greenlets in the meantime"""
  from symex.values import fresh_real
  mn, mx, ql = config(job['hi'])
  pool, prov = new_pool(mn, mx, ql)
  pool._state = ChannelState.Open
  od = fresh_real('open_takes', 0, 3, lo_strict=True)
  live_max = [0]
  class SlowConn(Conn):
    def Open(self):
      self.opened += 1
      ar = AsyncResult()
      gevent.spawn_later(od, ar.set, True)
      return ar
  def create(props):
    s = SlowConn(ChannelState.Open); prov.created.append(s)
    live_max[0] = max(live_max[0], len([c for c in prov.created if not c.closed]))
    return s
  prov.CreateSink = create
  S = St(); S.pool = pool; S.prov = prov; S.mn, S.mx, S.ql = mn, mx, ql; S.cached = []; S.lent = []
  terms = []
  def arrive(i):
    st = ClientMessageSinkStack(); t = Terminal(); st.Push(t); terms.append((st, t))
    if any(c.opened and not c.reqs and not c.closed for c in prov.created): cover('arrival-while-connection-opening')
    pool.AsyncProcessRequest(st, MethodCallMessage(None, 'm', (), {}), None, None)
  def expire(i):
    # what the real ClientTimeoutSink does when the call's deadline strikes
    if i < len(terms) and terms[i][0].Any():
      if any(c.opened and not c.reqs and not c.closed for c in prov.created): cover('timeout-while-connection-opening')
      for c in prov.created:
        if c.reqs and c.reqs[-1] is terms[i][0]: c.active -= 1       # the connection stops serving this request
      terms[i][0].AsyncProcessResponseMessage(MethodReturnMessage(error=STimeout()))
  for i in range(job['n']):
    at = fresh_real('arrive_at%d' % i, 0, 4)
    gevent.spawn_later(at, arrive, i)
    if i == 0:            # the first request has a (symbolic) deadline
      to = fresh_real('timeout_after%d' % i, 0, 4)
      gevent.spawn_later(at + to, expire, i)
  gevent.sleep(10)
  settle()
  # traffic stops: every request that is being served gets its reply
  for c in list(prov.created):
    for r in list(c.reqs):
      if r.Any():
        c.active -= 1
        r.AsyncProcessResponseMessage(MethodReturnMessage(return_value=1)); settle()
  settle()
  lent = [c for c in prov.created if not c.closed and any(r.Any() for r in c.reqs)]
  idle_conns = [c for c in prov.created if not c.closed and not any(r.Any() for r in c.reqs)]
  check('slowopen.no-connection-lost', all(any(x is c for x in pool._cache) for c in idle_conns))
  check('slowopen.idle-retains-at-most-min', len(live(S)) <= mn if not lent and not pool._waiters else True)
  check('slowopen.connections-never-exceed-max', live_max[0] <= mx)
  check('slowopen.size-at-most-max', pool._current_size <= mx)
  check('slowopen.size-equals-live', pool._current_size == len(live(S)))
  check('slowopen.no-double', not any(c.double for c in prov.created))
  for i, (st, t) in enumerate(terms):
    served = [c for c in prov.created if any(r is st for r in c.reqs)]
    queued = [x for x in pool._waiters if x[0] is st]
    if any(isinstance(m.error, STimeout) for (_, m) in t.got if m is not None and getattr(m, 'error', None) is not None):
      check('slowopen.timed-out-request-completed-once', len(t.got) == 1)
    else:
      check('slowopen.each-request-one-outcome', len(served) + len(queued) + len([g for g in t.got if getattr(g[1], 'error', None) is not None]) >= 1 and len(t.got) <= 1)
  check('no-greenlet-error', not vtime.ERRORS)


def real_fault(job):
  """the real pool over the REAL serial transport (public Thrift builder, max_watermark=1): a call is in flight, a second
  one waits in the pool queue, the server drops the connection at a symbolic instant"""
  from symex.values import fresh_real
  from symex import net as netm
  from . import stacks
  from scales.thrift import Thrift
  from scales.constants import SinkRole
  e = stacks.setup()
  d = fresh_real('server_drops_connection_after', 0, 5)
  script = netm.Script(plan=lambda i, p: ('close', d) if i == 0 else ('reply', 0))
  e.net.endpoint('a', 1, peer=lambda s: netm.ThriftPeer(s, script), connect_delay=0.1)
  b = Thrift.NewBuilder(stacks.Hello.Iface).SetUri('tcp://a:1').SetTimeout(30)
  c = b.ReplaceRole(SinkRole.Pool, WatermarkPoolSink.Builder(max_watermark=1)).Build()
  a1 = c.hi_async('A')
  g = fresh_real('second_call_at', 0, 5)
  if hdecide(g > 0): gevent.sleep(g)
  a2 = c.hi_async('B')
  gevent.sleep(40)
  ev1 = stacks.events(a1); ev2 = stacks.events(a2)
  check('real.first-fails-once', len(ev1) == 1 and ev1[0][1] == 'error')
  check('real.second-completes-once', len(ev2) == 1)
  if len(ev2) == 1 and bool(g < d):
    # B was waiting when the connection died: it is failed with the service-closed error, not started on the dead connection
    cover('real-connection-dies-with-queued-waiter')
    inner = getattr(ev2[0][2], 'inner_exception', ev2[0][2])
    check('real.waiter-failed-with-service-closed', ev2[0][1] == 'error' and isinstance(inner, ServiceClosedError))
  check('real.second-request-never-on-dead-connection', len([r for r in script.requests if r[3] == ['B']]) <= 1)
  check('no-greenlet-error', not vtime.ERRORS)
  c.DispatcherClose()
