"""C14 — framed Thrift calls and replies agree with the Thrift library's own codec (reduced scope).
(i)  chunk independence of both real readAll implementations and of the serial transport;
(ii) the real MessageSerializer over the library's pure-Python TBinaryProtocol on symbolic text:
     requests decoded by a generated-style Processor, replies mapped to value / declared exception /
     application exception / void exactly as the property states."""
import logging
logging.disable(logging.CRITICAL)
import gevent
from symex.values import (SymInt, check, cover, assume, sand, sor, snot, implies, fresh_int, choose, is_concrete, hdecide, fresh_real)
from symex import symbytes, stubs, vtime, net as netm
from symex.symbytes import SymBytes, SymBytesIO, SymStr
import thrift.protocol.TBinaryProtocol as tbp
import thrift.protocol.TProtocol as tp
from thrift.protocol.TBinaryProtocol import TBinaryProtocol, TBinaryProtocolFactory
from thrift.transport.TTransport import TMemoryBuffer
from thrift.Thrift import TApplicationException, TMessageType
import scales.thrift.serializer as ser_mod
import scales.thrift.sink as tsink_mod
from scales.thrift.serializer import MessageSerializer
from scales.message import MethodCallMessage, MethodReturnMessage
from scales.dispatch import _AsyncResponseSink, ScalesError
from scales.sink import ClientMessageSinkStack
from scales.asynchronous import AsyncResult
from scales.scales_socket import ScalesSocket
from scales.varz import VarzSocketWrapper
from scales.constants import SinkProperties
from . import gen_svc
from .fakes import Terminal, OneProvider, Ep

PROPERTY = 'C14'
INFO = dict(
  explanation='(ii) The real scales.thrift.serializer.MessageSerializer (SerializeThriftCall / DeserializeThriftCall, class lookup, message begin, '
              'outcome mapping) runs with the Thrift library\'s own pure-Python TBinaryProtocol (constructor argument protocol_factory) on '
              'SYMBOLIC text (symbolic code points over all of Unicode): the bytes it produces are decoded by a Processor written in '
              'generated-code style with the same library codec, which must see the same method, message type (CALL / ONEWAY) and argument; '
              'replies are produced by that Processor (value, declared exception, TApplicationException, void, missing result) and pushed '
              'through the real ThriftSerializerSink and _AsyncResponseSink: a value is returned, a declared or application exception reaches '
              'the caller as ScalesError whose inner_exception is that exception, void yields None. (i) Both real readAll loops '
              '(ScalesSocket.readAll, VarzSocketWrapper.readAll) and the whole serial transport (first four reads) read a reply whose bytes arrive in chunks of '
              'SYMBOLIC sizes (each read returns between 1 and the requested number of bytes), with end-of-stream at a symbolic position: '
              'exactly the requested bytes in order, or EOFError; the call outcome equals the unchunked outcome.',
  bounds={'quick': 'text of <= 2 symbolic characters; replies read in <= 6-byte buffers with symbolic chunking; one call per scenario',
          'thorough': 'text of <= 4 characters; <= 10-byte buffers'},
  outside=['the accelerated C codec (A5: assumed equal to the pure-Python codec of the same library; cannot be executed symbolically)',
           'struct/container arguments beyond strings and one declared exception struct', 'very long strings'],
  stubs=['struct.pack/unpack in thrift.protocol.TBinaryProtocol -> symbolic model (3.4)', "bytes(text,'utf-8') in thrift.protocol.TProtocol -> symbolic UTF-8 model (3.6); "
         'decode of bytes returns the text whose encoding produced them', 'BytesIO handed to TMemoryBuffer -> SymBytesIO (3.5)',
         'fake socket handle returning symbolic chunk sizes'],
  assumptions=['A5', 'interfaces written by the harness in generated-code style (harness/gen_svc.py)'],
)
EXPECT_COVERS = ['calls-queued-before-written', 'binary-client-after-json-builder', 'request-oneway', 'request-non-ascii', 'reply-value', 'reply-declared-exception', 'reply-application-exception',
                 'reply-void', 'reply-missing-result', 'chunk-split-header', 'chunk-eof-midway', 'transport-chunked-reply']


def install():
  tbp.pack = symbytes.sym_pack; tbp.unpack = symbytes.sym_unpack
  tp.bytes = symbytes.sym_bytes_ctor
  tsink_mod.BytesIO = SymBytesIO


def jobs(tier):
  mc = 2 if tier == 'quick' else 4
  js = []
  for m in ('echo', 'risky', 'note', 'ping'):
    for n in (range(0, mc + 1) if m != 'ping' else (0,)):
      js.append(dict(name='request-%s-c%d' % (m, n), op='request', method=m, n=n, cost=4 ** n))
  for kind in ('value', 'declared', 'app', 'void', 'missing'):
    for n in (range(0, mc + 1) if kind in ('value', 'declared', 'app') else (0,)):
      js.append(dict(name='reply-%s-c%d' % (kind, n), op='reply', kind=kind, n=n, cost=4 ** n))
  sz = 6 if tier == 'quick' else 10
  for impl in ('scales_socket', 'varz_wrapper'):
    for s in range(1, sz + 1):
      js.append(dict(name='readall-%s-%d' % (impl, s), op='readall', impl=impl, sz=s, cost=2 ** s))
  js.append(dict(name='transport-chunked', op='transport', cost=3000, shards=16, shard_depth=6))
  js.append(dict(name='after-other-protocol-builder', op='otherbuilder', cost=5))
  js.append(dict(name='calls-serialized-before-connection-is-up', op='queued', cost=50))
  return js


class Handler(object):
  def __init__(self): self.seen = []
  def echo(self, s): self.seen.append(('echo', s)); return s
  def ping(self): self.seen.append(('ping',))
  def risky(self, s): self.seen.append(('risky', s)); return s
  def note(self, s): self.seen.append(('note', s))


def same_text(a, b):
  ca = list(a.cps) if isinstance(a, SymStr) else [ord(c) for c in a]
  cb = list(b.cps) if isinstance(b, SymStr) else [ord(c) for c in b]
  if len(ca) != len(cb): return False
  return sand(*[x == y for x, y in zip(ca, cb)]) if ca else True


class ChunkHandle(object):
  """socket handle returning symbolic chunk sizes (1..requested) and EOF at a symbolic position"""
  def __init__(self, data, eof_at=None):
    self.data = bytes(data); self.pos = 0; self.eof_at = eof_at; self.sizes = []
  def _n(self, want):
    avail = len(self.data) - self.pos
    if self.eof_at is not None: avail = min(avail, self.eof_at - self.pos)
    if avail <= 0: return 0
    hi = min(want, avail)
    n = 1 + choose('chunk', hi)
    self.sizes.append(n)
    return n
  def recv(self, sz):
    n = self._n(sz); out = self.data[self.pos:self.pos + n]; self.pos += n; return out
  def recv_into(self, view, sz):
    n = self._n(sz); view[:n] = self.data[self.pos:self.pos + n]; self.pos += n; return n
  def close(self): pass


def make_body(job):
  op = job['op']
  def body():
    install()
    pf = TBinaryProtocolFactory()
    if op == 'request':
      m = job['method']
      ser = MessageSerializer(gen_svc.Iface, pf)
      seq = fresh_int('seq_id', 0, 2 ** 31 - 1)
      ser._seq_id = seq
      arg = SymStr.fresh('arg', job['n']) if m != 'ping' else None
      msg = MethodCallMessage(gen_svc.Iface, m, (arg,) if m != 'ping' else (), {})
      buf = SymBytesIO()
      ser.SerializeThriftCall(msg, buf)
      wire = buf.getvalue()
      h = Handler(); proc = gen_svc.Processor(h)
      itr = TMemoryBuffer(); itr._buffer = SymBytesIO(wire)
      otr = TMemoryBuffer(); otr._buffer = SymBytesIO()
      proc.process(TBinaryProtocol(itr), TBinaryProtocol(otr))
      check('request.all-bytes-consumed', itr._buffer.tell() == len(SymBytes.of(wire)))
      check('request.one-call-decoded', len(proc.calls) == 1 and len(h.seen) == 1)
      if proc.calls:
        name, mtype, seqid = proc.calls[0]
        check('request.method-name', name == m)
        oneway = (m == 'note')
        if oneway: cover('request-oneway')
        check('request.message-type', mtype == (TMessageType.ONEWAY if oneway else TMessageType.CALL))
        check('request.seqid', seqid == seq)
      if h.seen and m != 'ping':
        check('request.argument', h.seen[0][0] == m and same_text(h.seen[0][1], arg))
        if isinstance(arg, SymStr) and any(bool(c >= 0x80) for c in arg.cps if not isinstance(c, int)): cover('request-non-ascii')
    elif op == 'reply':
      kind = job['kind']
      text = SymStr.fresh('text', job['n'])
      h = Handler(); proc = gen_svc.Processor(h)
      method = {'value': 'echo', 'declared': 'risky', 'app': 'echo', 'void': 'ping', 'missing': 'echo'}[kind]
      app_type = fresh_int('app_exception_type', 0, 10)
      if kind == 'declared':
        def risky(s): raise gen_svc.MyError(text)
        h.risky = risky
      elif kind == 'app':
        def echo(s): raise TApplicationException(app_type, text)
        h.echo = echo
      elif kind == 'missing':
        h.echo = lambda s: None
      elif kind == 'value':
        h.echo = lambda s: text
      # a request produced by the library itself, answered by the generated-style processor
      req = TMemoryBuffer(); req._buffer = SymBytesIO()
      p = TBinaryProtocol(req)
      p.writeMessageBegin(method, TMessageType.CALL, 7)
      (gen_svc.ping_args() if method == 'ping' else (gen_svc.echo_args if method == 'echo' else gen_svc.risky_args)('q')).write(p)
      p.writeMessageEnd()
      itr = TMemoryBuffer(); itr._buffer = SymBytesIO(req._buffer.getvalue())
      otr = TMemoryBuffer(); otr._buffer = SymBytesIO()
      proc.process(TBinaryProtocol(itr), TBinaryProtocol(otr))
      reply = otr._buffer.getvalue()
      # client side: real ThriftSerializerSink + _AsyncResponseSink
      P = tsink_mod.ThriftSerializerSink.Builder.PARAMS_CLASS
      ssink = tsink_mod.ThriftSerializerSink(OneProvider(Terminal()), P(protocol_factory=pf),
                                             {SinkProperties.ServiceInterface: gen_svc.Iface, SinkProperties.Label: 'svc'})
      ar = AsyncResult()
      st = ClientMessageSinkStack()
      st.Push(_AsyncResponseSink(), (None, 0, ar, {}))
      st.Push(ssink)
      st.AsyncProcessResponseStream(SymBytesIO(reply))
      check('reply.completed', ar.ready())
      if not ar.ready(): return
      if kind == 'value':
        cover('reply-value')
        check('reply.value', ar.successful() and same_text(ar.value, text))
      elif kind == 'void':
        cover('reply-void')
        check('reply.void-is-none', ar.successful() and ar.value is None)
      else:
        ex = ar.exception
        check('reply.raised-as-scales-error', (not ar.successful()) and isinstance(ex, ScalesError))
        inner = getattr(ex, 'inner_exception', None)
        if kind == 'declared':
          cover('reply-declared-exception')
          check('reply.declared-exception-is-inner', isinstance(inner, gen_svc.MyError) and same_text(inner.message, text))
        elif kind == 'app':
          cover('reply-application-exception')
          check('reply.application-exception-is-inner', isinstance(inner, TApplicationException) and bool(inner.type == app_type) and same_text(inner.message, text))
        else:
          cover('reply-missing-result')
          check('reply.missing-result-is-application-exception', isinstance(inner, TApplicationException) and inner.type == TApplicationException.MISSING_RESULT)
    elif op == 'readall':
      sz = job['sz']
      data = bytes(range(65, 65 + sz + 2))
      eof = choose('eof_position', sz + 3)            # stream ends after this many bytes (> sz: enough data)
      hd = ChunkHandle(data, eof_at=eof)
      sock = ScalesSocket('h', 1); sock.handle = hd
      target = sock if job['impl'] == 'scales_socket' else VarzSocketWrapper(sock, 'svc')
      try:
        got = target.readAll(sz)
      except EOFError:
        cover('chunk-eof-midway')
        check('readall.eof-only-when-stream-short', eof < sz)
        return
      check('readall.exact-bytes-in-order', bytes(got) == data[:sz])
      check('readall.no-overread', hd.pos == sz)
      check('readall.enough-data', eof >= sz)
      if len(hd.sizes) > 1: cover('chunk-split-header')
    elif op == 'queued':
      # three calls are made (and serialized) while the client's first connection is still being opened, two of them wait
      # in the pool queue (max_watermark=1): each must reach the server with its own method and arguments, and get its own reply
      import io
      tsink_mod.BytesIO = io.BytesIO
      from . import stacks
      from scales.thrift import Thrift
      from scales.constants import SinkRole
      from scales.pool import WatermarkPoolSink
      e = stacks.setup()
      L = fresh_real('open_latency', 0, 2)
      script = netm.Script(plan=lambda i, p: ('reply', 0))
      e.net.endpoint('a', 1, peer=lambda s_: netm.ThriftPeer(s_, script), connect_delay=L)
      b = Thrift.NewBuilder(stacks.Hello.Iface).SetUri('tcp://a:1').SetTimeout(30).SetOpenTimeout(0)
      if choose('single_connection', 2): b = b.ReplaceRole(SinkRole.Pool, WatermarkPoolSink.Builder(max_watermark=1))
      c = b.Build()
      args = ['first', 'second-argument', '3']
      ars = [c.hi_async(a) for a in args]
      gevent.sleep(10)
      cover('calls-queued-before-written')
      seen = sorted(tuple(r[3]) for r in script.requests)
      check('queued.server-decodes-each-call-as-made', seen == sorted((a,) for a in args))
      for a, ar in zip(args, ars):
        ev = stacks.events(ar)
        check('queued.own-reply', len(ev) == 1 and ev[0][1] == 'value' and ev[0][2] == 'echo:' + a)
      check('no-greenlet-error', not vtime.ERRORS)
      c.DispatcherClose()
    elif op == 'otherbuilder':
      # another client of the same process was configured with a different protocol first (as ThriftHttp does with the
      # JSON protocol); a plain Thrift client built afterwards must still speak the binary protocol
      import io
      tsink_mod.BytesIO = io.BytesIO
      from . import stacks
      from thrift.protocol.TJSONProtocol import TJSONProtocolFactory
      e = stacks.setup()
      other = tsink_mod.ThriftSerializerSink.Builder(protocol_factory=TJSONProtocolFactory())
      script = netm.Script(plan=lambda i, p: ('reply', 0))
      e.net.endpoint('a', 1, peer=lambda s: netm.ThriftPeer(s, script), connect_delay=0)
      c = stacks.thrift_client('tcp://a:1', 5)
      ar = c.hi_async('x')
      gevent.sleep(3)
      cover('binary-client-after-json-builder')
      ev = stacks.events(ar)
      check('otherbuilder.binary-call-decoded-by-library-processor', len(script.requests) == 1 and script.requests[0][2] == 'hi' and script.requests[0][3] == ['x'])
      check('otherbuilder.reply-returned', len(ev) == 1 and ev[0][1] == 'value' and ev[0][2] == 'echo:x')
      c.DispatcherClose()
    elif op == 'transport':
      import io
      tsink_mod.BytesIO = io.BytesIO       # the full stack uses the accelerated codec, which needs a real BytesIO
      from . import stacks
      e = stacks.setup()
      script = netm.Script(plan=lambda i, p: ('reply', 0))
      e.net.endpoint('a', 1, peer=lambda s: netm.ThriftPeer(s, script), connect_delay=0)
      # symbolic chunking of everything the client reads
      orig = netm.FakeGSocket.recv_into
      budget = {'n': 0}
      def recv_into(self, view, sz):
        self._io('recv')
        if not self._wait_rx(): return 0
        chunk = self.rx[0]
        hi = min(sz, len(chunk))
        budget['n'] += 1
        if budget['n'] > 4: n = hi                     # only the first reads are chunked symbolically
        else: n = 1 + choose('chunk', min(hi, 4))
        view[:n] = chunk[:n]
        if n == len(chunk): self.rx.pop(0)
        else: self.rx[0] = chunk[n:]
        return n
      netm.FakeGSocket.recv_into = recv_into
      try:
        c = stacks.thrift_client('tcp://a:1', 5)
        ar = c.hi_async('x')
        gevent.sleep(3)
        cover('transport-chunked-reply')
        ev = stacks.events(ar)
        check('transport.same-outcome-for-every-chunking', len(ev) == 1 and ev[0][1] == 'value' and ev[0][2] == 'echo:x')
        c.DispatcherClose()
      finally:
        netm.FakeGSocket.recv_into = orig
  return body
