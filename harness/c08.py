"""C08 — transports fail in-flight requests once and report dead connections.
The two real transports (serial Thrift, ThriftMux) on the real ScalesSocket/VarzSocketWrapper over
the fake TCP layer; fault position, fault kind and timing are symbolic."""
import gevent
from io import BytesIO
from symex.values import (check, cover, assume, sand, sor, snot, implies, fresh_real, fresh_int, choose, hdecide, is_concrete)
from symex import vtime, stubs, net as netm
from . import stacks
from .fakes import Ep, Terminal
from scales.constants import ChannelState, SinkProperties, TransportHeaders
from scales.sink import ClientMessageSinkStack
from scales.message import MethodCallMessage, MethodReturnMessage, Deadline
from scales.thrift.sink import SocketTransportSink as ThriftTransport
from scales.thriftmux.sink import SocketTransportSink as MuxTransport, ThriftMuxMessageSerializerSink
from scales.thrift.serializer import MessageSerializer
from scales.thriftmux.protocol import MessageType

PROPERTY = 'C08'
INFO = dict(
  explanation='The real thrift.SocketTransportSink and thriftmux.SocketTransportSink (with MuxSocketTransportSink send/recv/ping loops), created by '
              'their public providers over the real ScalesSocket + VarzSocketWrapper, run on the virtual loop over the fake TCP layer. Symbolic: '
              'the outcome of connect (success / refusal after a delay), the I/O operation at which an injected error strikes (choose over the '
              'operations of the scenario: each write, each header/body read), the instant the peer closes the connection (EOF), a silent peer '
              '(time-out, then the reconnect succeeds or is refused), a peer that stops answering pings, and the number/timing of requests in '
              'flight. Oracle: every in-flight request received exactly one message; after a fault the transport reports Closed and its '
              'on_faulted signal fired; and whenever at the horizon the transport reports Open with nothing in flight, a fresh probe request '
              'actually reaches the peer.',
  bounds={'quick': 'serial: 1 request, 1 fault (connect refused, I/O error at a symbolic op, EOF at a symbolic instant, silence + reconnect ok/refused, time-out during a partially delivered blocked write), request issued while Open() is pending; mux: <= 2 requests in flight, 1 fault, unanswered ping, request during a pending open that succeeds / is refused / is never acknowledged', 'thorough': 'as quick with mux <= 3 requests in flight'},
  outside=['more than one fault per connection', 'send() returning fewer bytes than asked (a write that delivers part of the frame and then blocks IS covered)'],
  stubs=['fake TCP layer + scripted peers (3.9, 3.10)', 'virtual loop, timer/EMA math stubs, random for the ping interval (symbolic)'],
  assumptions=['A1-A4'],
)
EXPECT_COVERS = ['serial:timeout-during-partial-write', 'mux:request-during-failing-open', 'mux:request-during-successful-open', 'serial:request-during-failing-open', 'serial:request-during-successful-open', 'serial:connect-refused', 'serial:io-error', 'serial:eof', 'serial:timeout-reconnect-ok', 'serial:timeout-reconnect-refused',
                 'mux:connect-refused', 'mux:io-error', 'mux:eof', 'mux:ping-silence', 'serial:clean', 'mux:clean']


def jobs(tier):
  js = [dict(name='serial-connect', kind='serial', sc='connect', cost=10),
        dict(name='serial-io-fault', kind='serial', sc='io', cost=100),
        dict(name='serial-eof', kind='serial', sc='eof', cost=100),
        dict(name='serial-silence', kind='serial', sc='silence', cost=100),
        dict(name='serial-timeout-during-blocked-write', kind='serial', sc='blockedwrite', cost=100),
        dict(name='mux-connect', kind='mux', sc='connect', cost=10),
        dict(name='mux-io-fault', kind='mux', sc='io', n=2, cost=500),
        dict(name='mux-eof', kind='mux', sc='eof', n=2, cost=500, shards=4, shard_depth=2),
        dict(name='mux-ping-silence', kind='mux', sc='ping', n=1, cost=100),
        dict(name='mux-request-during-open', kind='mux', sc='duringopen', cost=200),
        dict(name='serial-request-during-open', kind='serial', sc='duringopen', cost=200)]
  if tier != 'quick':
    js += [dict(name='mux-eof-n3', kind='mux', sc='eof', n=3, cost=5000, shards=16, shard_depth=4),
           dict(name='mux-io-fault-n3', kind='mux', sc='io', n=3, cost=5000)]
  return js


def thrift_payload(arg):
  ser = MessageSerializer(stacks.Hello.Iface)
  buf = BytesIO()
  ser.SerializeThriftCall(MethodCallMessage(None, 'hi', (arg,), {}), buf)
  return buf


def mux_payload(arg):
  buf = BytesIO()
  buf.write(b'\x00\x00')            # no contexts
  buf.write(b'\x00\x00\x00\x00')    # empty dst, empty dtab
  inner = thrift_payload(arg); buf.write(inner.getvalue())
  return buf


def new_transport(kind, e, host='a', port=1):
  cls = ThriftTransport if kind == 'serial' else MuxTransport
  t = cls.Builder().CreateSink({SinkProperties.Endpoint: Ep(host, port), SinkProperties.Label: 'svc'})
  faults = []
  t.on_faulted.Subscribe(lambda v: faults.append((vtime.now(), v)))
  return t, faults


def send(kind, t, arg, deadline=None):
  st = ClientMessageSinkStack(); term = Terminal(); st.Push(term)
  msg = MethodCallMessage(None, 'hi', (arg,), {})
  if deadline is not None: msg.properties[Deadline.KEY] = deadline
  if kind == 'serial':
    t.AsyncProcessRequest(st, msg, thrift_payload(arg), {})
  else:
    t.AsyncProcessRequest(st, msg, mux_payload(arg), {TransportHeaders.MessageType: MessageType.Tdispatch})
  return term


def probe(kind, t, script, tag):
  """a transport that says it is open and idle must be able to carry the next request"""
  idle = (getattr(t, '_processing', None) is None) if kind == 'serial' else (len(t._tag_map) == 0)
  if t.state == ChannelState.Open and idle:
    before = len(script.requests)
    term = send(kind, t, 'probe')
    gevent.sleep(2)
    check(tag + '.open-and-idle-can-carry-a-request', len(script.requests) == before + 1 and script.requests[-1][3] == ['probe'])
    check(tag + '.probe-answered', len(term.got) == 1)


def make_body(job):
  kind = job['kind']; sc = job['sc']
  Peer = netm.ThriftPeer if kind == 'serial' else netm.MuxPeer
  def body():
    e = stacks.setup(symbolic_intervals=(sc == 'ping'))
    if sc == 'connect':
      refuse = choose('connect_refused', 2)
      d = fresh_real('connect_delay', 0, 3)
      script = netm.Script()
      e.net.endpoint('a', 1, peer=lambda s: Peer(s, script), connect='refuse' if refuse else 'ok', connect_delay=d)
      t, faults = new_transport(kind, e)
      ar = t.Open(); gevent.sleep(6)
      if refuse:
        cover(kind + ':connect-refused')
        check('connect.open-failed', ar.ready() and not ar.successful())
        check('connect.reports-closed', t.state == ChannelState.Closed)
        check('connect.fault-signalled', len(faults) >= 1)
      else:
        cover(kind + ':clean')
        check('connect.open-succeeded', ar.ready() and ar.successful() and t.state == ChannelState.Open)
        check('connect.no-fault', not faults)
      probe(kind, t, script, 'connect')
      t.Close()
      return
    if sc == 'duringopen':
      # a request issued while Open() is still in progress; the open then succeeds, is refused, or (mux) the
      # first ping is never answered
      outcome = choose('open_outcome', 3 if kind == 'mux' else 2)      # 0 ok, 1 refused, 2 ping unanswered
      d = fresh_real('connect_delay', 0, 3, lo_strict=True)
      script = netm.Script(plan=lambda i, p: ('reply', 0))
      if outcome == 2: script.ping_plan = lambda i, p: ('never',)
      e.net.endpoint('a', 1, peer=lambda s: Peer(s, script), connect='refuse' if outcome == 1 else 'ok', connect_delay=d)
      t, faults = new_transport(kind, e)
      ar = t.Open()
      at = fresh_real('request_at', 0, 3)
      terms = []
      def issue():
        terms.append(send(kind, t, 'early'))
      gevent.spawn_later(at, issue)
      gevent.sleep(15)
      check('duringopen.request-issued', len(terms) == 1)
      if terms:
        check('duringopen.exactly-one-outcome', len(terms[0].got) == 1)
      cover(kind + (':request-during-successful-open' if outcome == 0 else ':request-during-failing-open'))
      if outcome != 0:
        check('duringopen.reports-closed', t.state == ChannelState.Closed)
      probe(kind, t, script, 'duringopen')
      check('no-greenlet-error', not vtime.ERRORS)
      t.Close()
      return
    if sc == 'blockedwrite':
      # back-pressure: the write delivers the first part of the frame, then blocks; the deadline strikes meanwhile
      T = fresh_real('T', 0, 4, lo_strict=True); W = fresh_real('write_blocks_for', 0, 6)
      script = netm.Script(plan=lambda i, p: ('reply', 0))
      e.net.endpoint('a', 1, peer=lambda s: Peer(s, script), connect_delay=0.1)
      t, faults = new_transport(kind, e)
      t.Open().wait()
      conn = e.net.conns[0]
      orig = conn.sendall
      def stalling(data):
        data = bytes(data); h = len(data) // 2
        orig(data[:h]); gevent.sleep(W); orig(data[h:])
      conn.sendall = stalling
      term = send(kind, t, 'r0', deadline=vtime.now() + T)
      gevent.sleep(12)
      check('blockedwrite.exactly-one-outcome', len(term.got) == 1)
      if bool(T < W): cover('serial:timeout-during-partial-write')
      conn.sendall = orig          # the back-pressure is over
      probe(kind, t, script, 'blockedwrite')
      check('no-greenlet-error', not vtime.ERRORS)
      t.Close()
      return
    n = job.get('n', 1)
    script = netm.Script()
    if sc == 'io':
      script.plan = lambda i, p: ('reply', 1)
    elif sc == 'eof':
      cl = fresh_real('peer_closes_after', 0, 4)
      script.plan = lambda i, p: ('close', cl) if i == 0 else ('never',)
    elif sc == 'silence':
      script.plan = lambda i, p: ('never',) if i == 0 else ('reply', 0)
    elif sc == 'ping':
      script.plan = lambda i, p: ('reply', 0)
      script.ping_plan = lambda i, p: ('reply', 0) if i == 0 else ('never',)
    reconnect_refused = choose('reconnect_refused', 2) if sc == 'silence' else 0
    e.net.endpoint('a', 1, peer=lambda s: Peer(s, script),
                   connect=(lambda k: 'refuse' if (k >= 1 and reconnect_refused) else 'ok'), connect_delay=0.1)
    t, faults = new_transport(kind, e)
    t.Open().wait()
    check('setup.open', t.state == ChannelState.Open)
    conn = e.net.conns[0]
    if sc == 'io':
      base = conn.io_count
      nops = 3 if kind == 'serial' else 2 + n
      conn.fault_at = base + 1 + choose('fault_at_io_op', nops)
    terms = []
    T = fresh_real('T', 0, 6, lo_strict=True) if sc == 'silence' else None
    for i in range(n):
      if i:
        g = fresh_real('gap%d' % i, 0, 2)
        if hdecide(g > 0): gevent.sleep(g)
      terms.append(send(kind, t, 'r%d' % i, deadline=(vtime.now() + T) if T is not None else None))
    gevent.sleep(60 if sc == 'ping' else 12)
    for i, term in enumerate(terms):
      check('request%d.exactly-one-outcome' % i, len(term.got) == 1)
    got_err = [term for term in terms if term.got and isinstance(term.got[0][1], MethodReturnMessage) and term.got[0][1].error is not None]
    if sc in ('io', 'eof', 'ping'):
      faulted = any(k == 'fault' for (k, tt, c, b) in e.net.log) or sc in ('eof', 'ping')
      hit = bool(got_err) or bool(faults) or t.state == ChannelState.Closed
      if sc == 'io' and not any(k == 'fault' for (k, tt, c, b) in e.net.log):
        cover(kind + ':clean')
      else:
        cover(kind + (':io-error' if sc == 'io' else (':eof' if sc == 'eof' else ':ping-silence')))
        check('fault.reports-closed', t.state == ChannelState.Closed)
        check('fault.signal-raised', len(faults) >= 1)
    if sc == 'silence':
      cover('serial:timeout-reconnect-refused' if reconnect_refused else 'serial:timeout-reconnect-ok')
      check('silence.timed-out', len(terms[0].got) == 1 and terms[0].got[0][1].error is not None)
      if reconnect_refused:
        check('silence.failed-reconnect-reports-closed', t.state == ChannelState.Closed)
        check('silence.failed-reconnect-signals-fault', len(faults) >= 1)
    probe(kind, t, script, 'after')
    check('no-greenlet-error', not vtime.ERRORS)
    t.Close()
  return body
