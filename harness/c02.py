"""C02 — a call only ever receives the reply to its own request.
Same real stacks as C01; the simulated server echoes a function of the argument; reply order, delay,
loss, time-outs and connection closes are symbolic."""
import gevent
from symex.values import (check, cover, assume, sand, sor, snot, implies, fresh_real, fresh_int, choose, hdecide, is_concrete)
from symex import vtime, stubs, net as netm
from . import stacks
from .c01 import peer_cls, client
from scales.message import TimeoutError as ScalesTimeout
from scales.constants import SinkRole
from scales.pool import WatermarkPoolSink

PROPERTY = 'C02'
INFO = dict(
  explanation='The real Thrift (pool + serial transport) and ThriftMux (multiplexed transport) stacks from the public builders on the virtual '
              'loop; every call carries a distinct argument and the scripted server answers echo(argument) after a symbolic delay, stays '
              'silent, or closes the connection. Scenarios: a call that times out on a serial connection followed by another call on the SAME '
              'pooled connection while the stale reply is still in flight (the instant of the stale reply relative to the reconnect and to the '
              'next request is symbolic); concurrent calls on a multiplexed connection answered in any order / not at all; a timed-out '
              'multiplexed call whose late reply races a new call. Oracle: a call that returns a value returns echo(its own argument); the '
              "server's decoded request log (library codec) contains exactly the (method, argument) pairs the callers passed, each at most once.",
  bounds={'quick': 'serial: 2 sequential calls reusing one pooled connection; a time-out during a blocked write (none / half / all of the frame delivered) followed by a second call; 3 calls issued while the client is opening (both stacks); mux: 2 concurrent calls + 1 follow-up call, time-out then late reply then tag reuse, time-out during a blocked write then tag reuse', 'thorough': 'as quick plus: serial, 3 calls of which the last two are issued together (both wait in the pool queue behind the first); mux, 3 concurrent calls that are all answered (symbolic delays, any order) + 1 follow-up call, with the aperture EMA weight fixed at 1/2 for every dt > 0 (keeps the arithmetic linear; the fully symbolic weight made z3 answer unknown at this size)'},
  outside=['more calls than the bound', 'argument values other than short ASCII strings (byte-level codec: C13/C14)'],
  stubs=['as C01 (virtual loop, fake TCP + scripted peers, timer/EMA math, random, zeroed mux Deadline bytes)', 'thorough 3-call mux job: exp(-dt/W) = 1 if dt = 0 else 1/2',
         'pool max_watermark=1 via the public builder ReplaceRole() in the serial scenario, to force connection reuse'],
  assumptions=['A1-A5'],
)
EXPECT_COVERS = ['serial-timeout-during-blocked-write', 'calls-issued-while-opening', 'mux-timeout-during-blocked-write', 'serial-stale-reply-after-timeout', 'serial-next-call-served', 'mux-out-of-order', 'mux-timeout-then-late-reply']


def jobs(tier):
  n = 2 if tier == 'quick' else 3
  return [dict(name='T-serial-reuse-n2', sc='serial', n=2, cost=2000, shards=16, shard_depth=4)] + ([] if tier == 'quick' else [
          dict(name='T-serial-reuse-n3-issued-together', sc='serial', n=3, together=1, cost=20000, shards=64, shard_depth=6)]) + [
          dict(name='M-concurrent-n2', sc='mux', n=2, cost=2000, shards=8, shard_depth=3)] + ([] if tier == 'quick' else [
          dict(name='M-concurrent-n3-all-answered', sc='mux', n=3, all_reply=True, fixed_exp='1/2', cost=20000, shards=64, shard_depth=6)]) + [
          dict(name='M-timeout-reuse', sc='muxreuse', cost=500, shards=4, shard_depth=2),
          dict(name='M-blocked-write-reuse', sc='muxblocked', cost=500, shards=4, shard_depth=2),
          dict(name='M-calls-during-open', sc='duringopen', stack='M', cost=300),
          dict(name='T-calls-during-open', sc='duringopen', stack='T', cost=300),
          dict(name='T-blocked-write-reuse', sc='serialblocked', cost=500, shards=4, shard_depth=2)]


def judge_values(ars, script, issued):
  for i, (arg, ar) in enumerate(ars):
    ev = stacks.events(ar)
    check('call%d.completed-once' % i, len(ev) == 1)
    if len(ev) == 1 and ev[0][1] == 'value':
      check('call%d.own-reply' % i, ev[0][2] == 'echo:' + arg)
  seen = [(m, tuple(a)) for (t, p, m, a, tag) in script.requests]
  check('server.only-issued-requests', all(s in [('hi', (a,)) for a in issued] for s in seen))
  check('server.no-duplicate-request', len(seen) == len(set(seen)))


def make_body(job):
  sc = job['sc']
  def body():
    e = stacks.setup(fixed_exp=job.get('fixed_exp'))
    if sc == 'serial':
      n = job['n']
      T = fresh_real('T', 0, 5, lo_strict=True)
      ds = [fresh_real('server_delay%d' % i, 0, 12) for i in range(n)]
      script = netm.Script(plan=lambda i, p: ('reply', ds[min(i, n - 1)]))
      e.net.endpoint('a', 1, peer=lambda s: netm.ThriftPeer(s, script), connect_delay=0.1)
      from scales.thrift import Thrift
      b = Thrift.NewBuilder(stacks.Hello.Iface).SetUri('tcp://a:1').SetTimeout(T)
      b = b.ReplaceRole(SinkRole.Pool, WatermarkPoolSink.Builder(max_watermark=1))
      c = b.Build()
      ars = []; issued = []
      for i in range(n):
        if not (job.get('together') and i >= job['together']):
          g = fresh_real('gap%d' % i, 0, 6)
          if hdecide(g > 0): gevent.sleep(g)
        arg = 'arg%d' % i; issued.append(arg)
        ars.append((arg, c.hi_async(arg)))
        hdecide(ds[i] < T)
      gevent.sleep(40)
      judge_values(ars, script, issued)
      ev0 = stacks.events(ars[0][1])
      if ev0 and isinstance(ev0[0][2], ScalesTimeout) and len(script.requests) >= 1: cover('serial-stale-reply-after-timeout')
      ev1 = stacks.events(ars[1][1])
      if ev1 and ev1[0][1] == 'value' and ev0 and isinstance(ev0[0][2], ScalesTimeout): cover('serial-next-call-served')
      # a connection the client abandoned is never read again: every reply the stale connection produced stays unread
      check('no-greenlet-error', not vtime.ERRORS)
      c.DispatcherClose()
    elif sc == 'mux':
      n = job['n']
      T = fresh_real('T', 0, 5, lo_strict=True)
      ds = [fresh_real('server_delay%d' % i, 0, 8) for i in range(n + 1)]
      kinds = [0 if job.get('all_reply') else choose('server_kind%d' % i, 2) for i in range(n)] + [0]
      script = netm.Script(plan=lambda i, p: ('reply', ds[min(i, n)]) if kinds[min(i, n)] == 0 else ('never',))
      e.net.endpoint('a', 1, peer=lambda s: netm.MuxPeer(s, script), connect_delay=0.1)
      c = stacks.mux_client('tcp://a:1', T)
      ars = []; issued = []
      for i in range(n):
        arg = 'arg%d' % i; issued.append(arg); ars.append((arg, c.hi_async(arg)))
      for i in range(n - 1): hdecide(ds[i] < ds[i + 1])
      g = fresh_real('followup_at', 0, 10)
      gevent.sleep(g)
      issued.append('late'); ars.append(('late', c.hi_async('late')))
      gevent.sleep(18)
      judge_values(ars, script, issued)
      done = [stacks.events(ar)[0][0] for a, ar in ars[:n] if stacks.events(ar) and stacks.events(ar)[0][1] == 'value']
      if len(done) >= 2 and bool(done[0] > done[1]): cover('mux-out-of-order')
      tags = [tag for (t, p, m, a, tag) in script.requests]
      check('mux.tags-distinct-among-concurrent', len(set(tags[:n])) == len(tags[:n]))
      check('no-greenlet-error', not vtime.ERRORS)
      c.DispatcherClose()
    elif sc == 'duringopen':
      # several calls with different arguments are issued while the client is still opening its connection
      from .c01 import peer_cls, client
      k = job['stack']
      L = fresh_real('open_latency', 0, 3, lo_strict=True)
      script = netm.Script(plan=lambda i, p: ('reply', 0))
      e.net.endpoint('a', 1, peer=lambda s: peer_cls(k)(s, script), connect_delay=L)
      c = client(k, 'tcp://a:1', 10, open_timeout=0)
      ars = []; issued = []
      for i in range(3):
        g = fresh_real('gap%d' % i, 0, 2)
        if hdecide(g > 0): gevent.sleep(g)
        arg = 'argument-%d' % i; issued.append(arg); ars.append((arg, c.hi_async(arg)))
      if bool(L > 0): cover('calls-issued-while-opening')
      gevent.sleep(20)
      judge_values(ars, script, issued)
      seen = sorted(a[0] for (t, p, m, a, tag) in script.requests)
      check('duringopen.server-saw-every-argument', seen == sorted(issued))
      check('no-greenlet-error', not vtime.ERRORS)
      c.DispatcherClose()
    elif sc == 'serialblocked':
      # serial connection: the first call's write delivers part of the frame and then blocks; its deadline strikes
      # meanwhile; the next call uses the same pooled connection slot
      T = fresh_real('T', 0, 3, lo_strict=True)
      W = fresh_real('write_blocks_for', 0, 6)
      script = netm.Script(plan=lambda i, p: ('reply', 0))
      e.net.endpoint('a', 1, peer=lambda s: netm.ThriftPeer(s, script), connect_delay=0.1)
      from scales.thrift import Thrift
      b = Thrift.NewBuilder(stacks.Hello.Iface).SetUri('tcp://a:1').SetTimeout(20)
      c = b.ReplaceRole(SinkRole.Pool, WatermarkPoolSink.Builder(max_watermark=1)).Build()
      conn = e.net.conns[0]
      orig = conn.sendall
      cut = choose('bytes_delivered_before_blocking', 3)      # none / half / all of the frame
      def stalling(data):
        data = bytes(data); h = (0, len(data) // 2, len(data))[cut]
        if h: orig(data[:h])
        gevent.sleep(W)
        if h < len(data): orig(data[h:])
      conn.sendall = stalling
      a = c._dispatcher.DispatchMethodCall('hi', ('A',), {}, timeout=T)
      hdecide(T < W)
      g = fresh_real('second_call_at', 0, 10)
      gevent.sleep(g)
      b_ = c.hi_async('B')
      gevent.sleep(30)
      evA = stacks.events(a)
      if evA and isinstance(evA[0][2], ScalesTimeout) and bool(T < W): cover('serial-timeout-during-blocked-write')
      for i, (arg, ar) in enumerate([('A', a), ('B', b_)]):
        ev = stacks.events(ar)
        check('call%d.completed-once' % i, len(ev) == 1)
        if len(ev) == 1 and ev[0][1] == 'value': check('call%d.own-reply' % i, ev[0][2] == 'echo:' + arg)
      seen = [(m, tuple(x)) for (t, p, m, x, tag) in script.requests]
      check('server.only-issued-requests', all(sx in [('hi', ('A',)), ('hi', ('B',))] for sx in seen))
      check('no-greenlet-error', not vtime.ERRORS)
      c.DispatcherClose()
    elif sc == 'muxblocked':
      # the first call's frame is stuck in a blocked write (back-pressure) when its timeout strikes; the server
      # still answers it late; a second call goes out on the same connection in between
      T = fresh_real('T', 0, 3, lo_strict=True)
      W = fresh_real('write_blocks_for', 0, 6)
      dA = fresh_real('late_reply_after', 0, 6)
      dB = fresh_real('second_reply_after', 0, 6)
      script = netm.Script(plan=lambda i, p: ('reply', dA) if p.script.requests[i][3] == ['A'] else ('reply', dB))
      e.net.endpoint('a', 1, peer=lambda s: netm.MuxPeer(s, script), connect_delay=0.1)
      c = stacks.mux_client('tcp://a:1', 20)
      conn = e.net.conns[0]
      orig = conn.sendall
      def slow_sendall(data):
        if b'A' in bytes(data)[-3:]: gevent.sleep(W)
        return orig(data)
      conn.sendall = slow_sendall
      a = c._dispatcher.DispatchMethodCall('hi', ('A',), {}, timeout=T)
      hdecide(T < W)
      g = fresh_real('second_call_at', 0, 12)
      gevent.sleep(g)
      b_ = c.hi_async('B')
      gevent.sleep(25)
      judge_values([('A', a), ('B', b_)], script, ['A', 'B'])
      evA = stacks.events(a)
      if evA and isinstance(evA[0][2], ScalesTimeout) and bool(T < W): cover('mux-timeout-during-blocked-write')
      check('no-greenlet-error', not vtime.ERRORS)
      c.DispatcherClose()
    elif sc == 'muxreuse':
      T = fresh_real('T', 0, 3, lo_strict=True)
      dA = fresh_real('late_reply_after', 0, 10)
      dC = fresh_real('server_delay_c', 0, 3)
      script = netm.Script(plan=lambda i, p: ('reply', dA) if i == 0 else ('reply', dC))
      e.net.endpoint('a', 1, peer=lambda s: netm.MuxPeer(s, script), connect_delay=0.1)
      c = stacks.mux_client('tcp://a:1', T)
      a = c.hi_async('A')
      hdecide(dA < T)
      g = fresh_real('second_call_at', 0, 12)
      gevent.sleep(g)
      b_ = c.hi_async('C')
      gevent.sleep(30)
      judge_values([('A', a), ('C', b_)], script, ['A', 'C'])
      evA = stacks.events(a)
      if evA and isinstance(evA[0][2], ScalesTimeout): cover('mux-timeout-then-late-reply')
      check('no-greenlet-error', not vtime.ERRORS)
      c.DispatcherClose()
  return body
