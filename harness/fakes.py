"""Small fakes shared by the scenario harnesses (DESIGN.md 3.12): downstream channel, sink
provider, server-set provider, caller terminal."""
import gevent
from scales.asynchronous import AsyncResult
from scales.constants import ChannelState, SinkProperties
from scales.sink import ClientMessageSink, ClientMessageSinkStack
from scales.message import MethodReturnMessage, MethodCallMessage, Deadline
from symex import vtime


class Ep(object):
  def __init__(self, host, port): self.host = host; self.port = port
  def __repr__(self): return '%s:%s' % (self.host, self.port)
  def __str__(self): return '%s:%s' % (self.host, self.port)
  def __hash__(self): return hash((self.host, self.port))
  def __eq__(self, o): return isinstance(o, Ep) and (self.host, self.port) == (o.host, o.port)


class Member(object):
  def __init__(self, ep): self.service_endpoint = ep; self.additional_endpoints = {}
  def __repr__(self): return 'Member(%s)' % self.service_endpoint


class FakeServerSet(object):
  """ServerSetProvider stub: a list of members, join/leave callbacks delivered by the harness"""
  endpoint_name = None
  def __init__(self, n=0, get_delay=None):
    self.members = [Member(Ep('h%d' % i, 9000 + i)) for i in range(1, n + 1)]
    self.on_join = None; self.on_leave = None; self.closed = 0; self.get_delay = get_delay
    self.initialized = 0
  def Initialize(self, on_join, on_leave):
    self.on_join = on_join; self.on_leave = on_leave; self.initialized += 1
  def GetServers(self):
    if self.get_delay is not None: gevent.sleep(self.get_delay)
    return list(self.members)
  def Close(self): self.closed += 1


class Chan(ClientMessageSink):
  """downstream channel fake for scenarios: keeps the sink stacks of the requests it was given so
  that the harness can answer them at (symbolic) virtual times"""
  def __init__(self, props, provider):
    super(Chan, self).__init__()
    self.props = props; self.endpoint = props.get(SinkProperties.Endpoint)
    self._state = ChannelState.Idle
    self.requests = []     # (time, sink_stack, msg, stream, headers)
    self.opens = 0; self.closes = 0
    self.provider = provider
  @property
  def state(self): return self._state
  def Open(self):
    self.opens += 1
    d = self.provider.open_delay
    if d is None:
      self._state = ChannelState.Open
      return AsyncResult.Complete()
    ar = AsyncResult()
    def later():
      self._state = ChannelState.Open; ar.set(True)
    gevent.spawn_later(d, later)
    return ar
  def Close(self):
    self.closes += 1; self._state = ChannelState.Closed
  def AsyncProcessRequest(self, sink_stack, msg, stream, headers):
    self.requests.append((vtime.now(), sink_stack, msg, stream, headers))
    if self.provider.on_request: self.provider.on_request(self, sink_stack, msg, stream, headers)
  def AsyncProcessResponse(self, sink_stack, context, stream, msg):
    raise NotImplementedError


class ChanProvider(object):
  Role = 'transport'
  def __init__(self, open_delay=None, on_request=None):
    self.created = []; self.open_delay = open_delay; self.on_request = on_request
    self.next_provider = None
  def CreateSink(self, props):
    c = Chan(props, self); self.created.append(c); return c
  @property
  def sink_class(self): return Chan


class Terminal(ClientMessageSink):
  """bottom of a caller's sink stack: records (time, message) of everything delivered to the caller"""
  def __init__(self, on_done=None):
    super(Terminal, self).__init__(); self.got = []; self.on_done = on_done
  def AsyncProcessRequest(self, *a): pass
  def AsyncProcessResponse(self, sink_stack, context, stream, msg):
    self.got.append((vtime.now(), msg))
    if self.on_done: self.on_done(self, msg)


class OneProvider(object):
  """a provider that always returns the given sink (to stack real sinks by hand)"""
  def __init__(self, sink): self.sink = sink; self.next_provider = None
  def CreateSink(self, props): return self.sink
  @property
  def sink_class(self): return type(self.sink)


def new_call(deadline=None, method='m', args=()):
  st = ClientMessageSinkStack(); term = Terminal(); st.Push(term)
  msg = MethodCallMessage(None, method, args, {})
  if deadline is not None: msg.properties[Deadline.KEY] = deadline
  return st, term, msg
