"""C01 — every call completes exactly once, no later than its deadline.
The real Thrift and ThriftMux client stacks built by the public builders run on the virtual loop
over the fake TCP layer; issue times, timeouts, connect/reply delays and fault instants are symbolic."""
import gevent
from symex.values import (check, cover, assume, sand, sor, snot, implies, fresh_real, fresh_int, choose, hdecide,
                          is_concrete, time_const)
from symex import vtime, stubs, net as netm
from . import stacks
from .fakes import FakeServerSet, Member
from scales.message import TimeoutError as ScalesTimeout

PROPERTY = 'C01'
INFO = dict(
  explanation='Thrift.NewBuilder / ThriftMux.NewBuilder (.SetUri .SetTimeout .SetOpenTimeout .Build) create the complete real stacks '
              '(proxy, MessageDispatcher, ClientTimeoutSink + TimerQueue, serializer sinks, ApertureBalancerSink, ResurrectorSink, '
              'WatermarkPoolSink, serial / multiplexed transports, ScalesSocket, VarzSocketWrapper); they run on the virtual-time loop over a '
              'fake TCP layer with scripted Thrift / ThriftMux servers. Symbolic reals: the call timeout T, issue instants, connect latency, '
              'reply delays, the instant a server closes the connection; symbolic choices: whether a server replies, stays silent, or closes. '
              'Every ordering of reply / fault / timer / open-completion is therefore a solver decision. Oracle per call, on the AsyncResult the '
              'caller holds (a counting subclass injected for scales.dispatch.AsyncResult): exactly one completion at the horizon; completion '
              'time <= ceil_10ms(t+T); TimeoutError => completion time >= t+T; later replies/faults/timers change nothing.',
  bounds={'quick': 'per stack: 1 endpoint / 1 call (reply vs timer; peer close vs timer; injected I/O error at a symbolic operation index, then a second call), 2 calls issued together on one endpoint (servers reply after symbolic delays; thorough: symbolic issue gaps, reply or stay silent), 1 call issued before open completes (symbolic open latency), refused endpoint',
          'thorough': 'adds: 2 calls with a symbolic gap and servers that reply or stay silent; 3 calls over 2 endpoints (reply / silent / close); a member leaving with calls in flight'},
  outside=['more calls/endpoints than the bound', 'byte-level content of frames (concrete here; C13/C14)', 'IEEE rounding of the 10 ms grid (exact reals, A2)',
           'histories longer than one fault per connection'],
  stubs=['virtual loop (3.1), time.time (3.2)', 'fake TCP layer + scripted peers (3.9, 3.10): connect ok/refused after a delay, peer close, '
         'replies delivered at peer-chosen virtual times', 'math.ceil/float/int in timer_queue, math.exp/float in varz (3.8)',
         'random in heap/base (3.3); ping interval fixed at 35 s and jitter interval at 180 s (midpoints of their ranges)', 'aperture LOW_RESOLUTION_* -> fresh queue on the virtual clock',
         'ThriftMux Deadline context bytes -> zeros (symbolic clock never reaches struct; C13 covers the bytes)',
         'scales.dispatch.AsyncResult -> counting subclass'],
  assumptions=['A1 zero-time code', 'A2 exact reals', 'A3 tie order', 'A4 socket/peer contracts', 'A5 accelerated Thrift codec == pure-Python codec'],
)
EXPECT_COVERS = ['T:jitter-swaps-member-in', 'M:jitter-swaps-member-in', 'T:io-error', 'M:io-error', 'T:reply-wins', 'T:timeout-wins', 'M:reply-wins', 'M:timeout-wins', 'T:peer-close', 'M:peer-close',
                 'T:issued-before-open', 'M:issued-before-open', 'T:refused', 'M:refused']


def jobs(tier):
  js = []
  for k in ('T', 'M'):
    js.append(dict(name='%s-reply-vs-timer' % k, stack=k, sc='reply', cost=50))
    js.append(dict(name='%s-close-vs-timer' % k, stack=k, sc='close', cost=50))
    js.append(dict(name='%s-io-error-vs-timer' % k, stack=k, sc='iofault', cost=100))
    js.append(dict(name='%s-two-calls' % k, stack=k, sc='two', fixed_kinds=True, cost=3000, shards=8, shard_depth=3))
    if tier != 'quick':
      js.append(dict(name='%s-two-calls-gap-kinds' % k, stack=k, sc='two', gaps=[1], cost=30000, shards=64, shard_depth=6))
    js.append(dict(name='%s-before-open' % k, stack=k, sc='preopen', cost=200))
    js.append(dict(name='%s-refused' % k, stack=k, sc='refused', cost=50))
    js.append(dict(name='%s-aperture-jitter' % k, stack=k, sc='jitter', cost=3000, shards=16, shard_depth=5))
    if tier != 'quick':
      js.append(dict(name='%s-three-calls-two-endpoints' % k, stack=k, sc='three', gaps=[], cost=50000, shards=64, shard_depth=6))
      js.append(dict(name='%s-member-leaves' % k, stack=k, sc='leave', cost=3000, shards=16, shard_depth=5))
  return js


def peer_cls(k): return netm.MuxPeer if k == 'M' else netm.ThriftPeer
def client(k, *a, **kw): return (stacks.mux_client if k == 'M' else stacks.thrift_client)(*a, **kw)


def judge(tag, ar, t_issue, T, horizon_events=True):
  """the per-call oracle"""
  ev = stacks.events(ar)
  check(tag + '.completes-exactly-once', len(ev) == 1)
  if len(ev) != 1: return None
  t, kind, val = ev[0]
  grid = time_const(0.01)
  limit = stubs.sym_ceil((t_issue + T) / grid) * grid
  check(tag + '.by-deadline', t <= limit)
  if kind == 'error' and isinstance(val, ScalesTimeout):
    check(tag + '.timeout-not-early', t >= t_issue + T)
    return 'timeout'
  return 'value' if kind == 'value' else 'error'


def make_body(job):
  k = job['stack']; sc = job['sc']
  def body():
    e = stacks.setup()
    if sc in ('reply', 'close'):
      T = fresh_real('T', 0, 20, lo_strict=True)
      d = fresh_real('server_delay', 0, 30)
      mode = 'reply' if sc == 'reply' else 'close'
      script = netm.Script(plan=lambda i, p: (mode, d))
      e.net.endpoint('a', 1, peer=lambda s: peer_cls(k)(s, script), connect_delay=0.1)
      c = client(k, 'tcp://a:1', T)
      g = fresh_real('issue_gap', 0, 3)
      if hdecide(g > 0): gevent.sleep(g)
      t0 = vtime.now()
      ar = c.hi_async('x')
      gevent.sleep(70)
      out = judge('call', ar, t0, T)
      if sc == 'reply':
        if out == 'value':
          cover(k + ':reply-wins'); check('call.value', stacks.events(ar)[0][2] == 'echo:x')
        elif out == 'timeout': cover(k + ':timeout-wins')
        check('call.kind', out in ('value', 'timeout'))
      else:
        if out == 'error': cover(k + ':peer-close')
      check('no-greenlet-error', not vtime.ERRORS)
      c.DispatcherClose()
    elif sc == 'jitter':
      # two members, one in the aperture; the periodic aperture jitter (every 3 s here, through the public builder) swaps
      # the idle member in, whose connection takes a symbolic while to open; a call to a silent server is in flight and
      # its deadline falls before / during / after that open
      from scales.loadbalancer import ApertureBalancerSink
      from scales.constants import SinkRole
      T = fresh_real('T', 0, 8, lo_strict=True)
      L = fresh_real('swapped_in_member_opens_in', 0, 8)
      script = netm.Script(plan=lambda i, p: ('never',))
      nconn = [0]
      def delay(n_):
        nconn[0] += 1
        return 0.1 if nconn[0] == 1 else L
      for name, port in (('a', 1), ('b', 2)):
        e.net.endpoint(name, port, peer=lambda s_: peer_cls(k)(s_, script), connect_delay=delay)
      from scales.thrift import Thrift
      from scales.thriftmux import ThriftMux
      b = (ThriftMux if k == 'M' else Thrift).NewBuilder(stacks.Hello.Iface).SetUri('tcp://a:1,b:2').SetTimeout(T)
      c = b.ReplaceRole(SinkRole.LoadBalancer, ApertureBalancerSink.Builder(min_size=1, jitter_min_sec=3, jitter_max_sec=3)).Build()
      g = fresh_real('issue_at', 0, 6)
      if hdecide(g > 0): gevent.sleep(g)
      t0 = vtime.now()
      ar = c.hi_async('x')
      hdecide(g + T < 3)
      hdecide(g + T < 3 + L)
      gevent.sleep(17)
      out = judge('call', ar, t0, T)
      # (the outcome is a time-out, or - when the jitter has meanwhile taken the call's member out of the aperture and the
      # member's connection is closed as the call is handed back - a 'Close invoked' client error; either way once, in time)
      check('call.kind', out in ('timeout', 'error'))
      if nconn[0] >= 2: cover(k + ':jitter-swaps-member-in')
      check('no-greenlet-error', not vtime.ERRORS)
      c.DispatcherClose()
    elif sc == 'iofault':
      # an I/O error (exception from send/recv) strikes at a symbolic operation index of the connection
      T = fresh_real('T', 0, 8, lo_strict=True)
      d = fresh_real('server_delay', 0, 10)
      script = netm.Script(plan=lambda i, p: ('reply', d))
      e.net.endpoint('a', 1, peer=lambda s: peer_cls(k)(s, script), connect_delay=0.1)
      c = client(k, 'tcp://a:1', T)
      conn = e.net.conns[0]
      conn.fault_at = conn.io_count + 1 + choose('fault_at_io_op', 4)
      t0 = vtime.now()
      ar = c.hi_async('x')
      gevent.sleep(30)
      out = judge('call', ar, t0, T)
      if any(kd == 'fault' for (kd, tt, cc, bb) in e.net.log): cover(k + ':io-error')
      if out == 'value': check('call.value', stacks.events(ar)[0][2] == 'echo:x')
      # a second call after the fault is still answered or failed exactly once, within its deadline
      t1 = vtime.now()
      ar2 = c.hi_async('y')
      gevent.sleep(30)
      judge('call2', ar2, t1, T)
      check('no-greenlet-error', not vtime.ERRORS)
      c.DispatcherClose()
    elif sc in ('two', 'three'):
      n = 2 if sc == 'two' else 3
      T = fresh_real('T', 0, 10, lo_strict=True)
      ds = [fresh_real('server_delay%d' % i, 0, 15) for i in range(n)]
      kinds = [0 if job.get('fixed_kinds') else choose('server_kind%d' % i, 2 if sc == 'two' else 3) for i in range(n)]      # 0 reply, 1 silent, 2 close
      def plan(i, p):
        i = min(i, n - 1)
        return ('reply', ds[i]) if kinds[i] == 0 else (('never',) if kinds[i] == 1 else ('close', ds[i]))
      script = netm.Script(plan=plan)
      e.net.endpoint('a', 1, peer=lambda s: peer_cls(k)(s, script), connect_delay=0.1)
      uri = 'tcp://a:1'
      if sc == 'three':
        e.net.endpoint('b', 2, peer=lambda s: peer_cls(k)(s, script), connect_delay=0.2); uri = 'tcp://a:1,b:2'
      c = client(k, uri, T)
      # case splits the code will make anyway, taken up front so the job can be sharded
      for i in range(n): hdecide(ds[i] + 0.1 < T)
      if n >= 2: hdecide(ds[0] < ds[1])
      ars = []
      for i in range(n):
        if i in job.get('gaps', []):
          g = fresh_real('issue_gap%d' % i, 0, 2)
          if hdecide(g > 0): gevent.sleep(g)
        ars.append((vtime.now(), c.hi_async('x%d' % i)))
      gevent.sleep(40)
      for i, (t0, ar) in enumerate(ars):
        out = judge('call%d' % i, ar, t0, T)
        if out == 'value': check('call%d.own-value' % i, stacks.events(ar)[0][2] == 'echo:x%d' % i)
      check('no-greenlet-error', not vtime.ERRORS)
      c.DispatcherClose()
    elif sc == 'preopen':
      T = fresh_real('T', 0, 10, lo_strict=True)
      L = fresh_real('open_latency', 0, 15)
      d = fresh_real('server_delay', 0, 15)
      silent = choose('server_silent', 2)
      script = netm.Script(plan=lambda i, p: ('never',) if silent else ('reply', d))
      e.net.endpoint('a', 1, peer=lambda s: peer_cls(k)(s, script), connect_delay=L)
      c = client(k, 'tcp://a:1', T, open_timeout=0)
      g = fresh_real('issue_at', 0, 15)
      if hdecide(g > 0): gevent.sleep(g)
      t0 = vtime.now()
      ar = c.hi_async('x')
      if bool(g < L): cover(k + ':issued-before-open')
      gevent.sleep(60)
      judge('call', ar, t0, T)
      check('no-greenlet-error', not vtime.ERRORS)
      c.DispatcherClose()
    elif sc == 'refused':
      T = fresh_real('T', 0, 10, lo_strict=True)
      cd = fresh_real('refuse_after', 0, 3)
      e.net.endpoint('a', 1, peer=None, connect='refuse', connect_delay=cd)
      c = client(k, 'tcp://a:1', T)
      g = fresh_real('issue_gap', 0, 8)
      if hdecide(g > 0): gevent.sleep(g)
      t0 = vtime.now()
      ar = c.hi_async('x')
      gevent.sleep(40)
      out = judge('call', ar, t0, T)
      cover(k + ':refused')
      check('call.not-a-value', out != 'value')
      c.DispatcherClose()
    elif sc == 'leave':
      T = fresh_real('T', 0, 10, lo_strict=True)
      d = fresh_real('server_delay', 0, 15)
      script = netm.Script(plan=lambda i, p: ('reply', d))
      for h, p_ in (('h1', 9001), ('h2', 9002)):
        e.net.endpoint(h, p_, peer=lambda s: peer_cls(k)(s, script), connect_delay=0.1)
      ss = FakeServerSet(2)
      from scales.thrift import Thrift
      from scales.thriftmux import ThriftMux
      b = (ThriftMux if k == 'M' else Thrift).NewBuilder(stacks.Hello.Iface).SetUri('tcp://h1:9001').SetServerSetProvider(ss).SetTimeout(T)
      c = b.Build()
      t0 = vtime.now()
      ar = c.hi_async('x')
      la = fresh_real('leave_at', 0, 12)
      which = choose('leaver', 2)
      def leave():
        m = ss.members[which]
        gevent.spawn(ss.on_leave, m)
      gevent.spawn_later(la, leave)
      g2 = fresh_real('second_issue', 0, 12)
      gevent.sleep(g2)
      t1 = vtime.now()
      ar2 = c.hi_async('y')
      gevent.sleep(40)
      judge('call0', ar, t0, T); judge('call1', ar2, t1, T)
      check('no-greenlet-error', not vtime.ERRORS)
      c.DispatcherClose()
  return body
