"""Inductive-step harness over the REAL HeapBalancerSink (C03, C04): an arbitrary pre-state that
satisfies the representation invariant, one real operation, invariant + property afterwards.

Pre-state (symbolic): per member i the number of outstanding requests out_i >= 0 (unbounded
integer), its channel state st_i in {Idle, Open, Busy, Closed}; (explicit shape, one job each): the
number of members N, which members are marked down and their order in the down queue, and
whether a stale (already removed) node sits in the down queue.
"""
import logging
logging.disable(logging.CRITICAL)
import z3
from symex.values import (SymInt, SymBool, fresh_int, assume, check, cover, sand, sor, snot, implies, siff,
                          is_concrete, lift_int)
from symex import stubs
from scales.loadbalancer import heap as heap_mod
from scales.loadbalancer.heap import HeapBalancerSink, Heap
from scales.loadbalancer.base import NoMembersError
from scales.constants import ChannelState, MessageProperties
from scales.sink import ClientMessageSinkStack, ClientMessageSink
from scales.message import Message, MethodCallMessage
from scales.asynchronous import AsyncResult

Idle, Pen = HeapBalancerSink.Idle, HeapBalancerSink.Penalty
OUT_MAX = 1000000


class Chan(object):
  """fake member channel: state fixed for the duration of one operation; records calls"""
  def __init__(self, i, st):
    self.i = i; self._st = st; self.closed = 0; self.reqs = 0; self.opened = 0
  @property
  def state(self): return self._st
  def Close(self): self.closed += 1
  def Open(self):
    self.opened += 1
    return AsyncResult.Complete()
  def AsyncProcessRequest(self, sink_stack, msg, stream, headers): self.reqs += 1
  @property
  def is_open(self): return bool(self._st <= ChannelState.Busy)
  @property
  def is_closed(self): return bool(self._st == ChannelState.Closed)


class Terminal(ClientMessageSink):
  """bottom of the caller's sink stack: records the messages that reach the caller"""
  def __init__(self): super(Terminal, self).__init__(); self.got = []
  def AsyncProcessRequest(self, *a): pass
  def AsyncProcessResponse(self, sink_stack, context, stream, msg): self.got.append(msg)


class SSP(object):
  endpoint_name = None
  def Close(self): pass


class Ctx(object):
  pass


def new_sink(cls=HeapBalancerSink, **params):
  P = cls.Builder.PARAMS_CLASS
  d = dict(cls.Builder._defaults); d.update(params); d['server_set_provider'] = SSP()
  return cls(None, P(**d), {'label': 'verif'})


def build(N, down, stale=False, cls=HeapBalancerSink, sink=None, states=None):
  """real sink with N heap nodes in an arbitrary state satisfying the invariant"""
  heap_mod.random = stubs.SymRandom('heap')
  c = Ctx()
  s = sink or new_sink(cls)
  c.sink = s; c.N = N
  c.out = {}; c.st = {}; c.down = {}; c.nodes = {}; c.chan = {}
  for i in range(1, N + 1):
    c.out[i] = fresh_int('out%d' % i, 0, OUT_MAX)
    c.st[i] = fresh_int('st%d' % i, 1, 4) if states is None else states[i - 1]
    c.down[i] = i in down
    load = Idle + c.out[i] + (Pen if c.down[i] else 0)
    ch = Chan(i, c.st[i])
    n = cls.Node(ch, load, i, 'ep%d' % i)
    s._heap.append(n); c.nodes[i] = n; c.chan[i] = ch
  s._size = N
  # I2: heap order (parent <= child by (load, index); the index tie-break is positional)
  for i in range(2, N + 1):
    assume(snot(c.nodes[i].load < c.nodes[i // 2].load))
  # I4: the down queue holds exactly the down nodes, in the job's order
  dq = None
  for i in reversed(down):
    c.nodes[i].downq = dq; dq = c.nodes[i]
  c.stale = None
  if stale:
    ch = Chan(0, fresh_int('st_stale', 1, 4))
    sn = cls.Node(ch, Idle + fresh_int('out_stale', 0, OUT_MAX) + Pen, -1, 'ep_stale')
    if stale == 'head':
      sn.downq = dq; dq = sn
    else:
      if dq is None: dq = sn
      else:
        t = dq
        while t.downq is not None: t = t.downq
        t.downq = sn
    c.stale = sn
  s._downq = dq
  s._open = True
  return c


def downq_nodes(s, limit=64):
  out = []; n = s._downq
  while n is not None and len(out) < limit:
    out.append(n); n = n.downq
  return out, n is None


def check_inv(c, tag='inv'):
  """representation invariant after the operation"""
  s = c.sink; h = s._heap
  check(tag + '.shape', len(h) == s._size + 1 and all(h[i].index == i for i in range(1, s._size + 1)))
  for i in range(2, s._size + 1):
    check(tag + '.order@%d' % i, snot(h[i].load < h[i // 2].load))
  dq, acyclic = downq_nodes(s)
  check(tag + '.downq-acyclic', acyclic and len(set(map(id, dq))) == len(dq))
  inq = set(id(n) for n in dq)
  for i in range(1, s._size + 1):
    # I4: in the down queue <=> carries the penalty (load >= 0)
    check(tag + '.downq-iff-down@%d' % i, siff(h[i].load >= 0, id(h[i]) in inq))
    check(tag + '.load-range@%d' % i, sand(h[i].load >= Idle, sor(h[i].load < Idle + OUT_MAX + 2, h[i].load >= 0)))


def outstanding_of(node, dq_ids):
  """ghost: the outstanding count the balancer attributes to a node"""
  return node.load - Idle - (Pen if id(node) in dq_ids else 0)


def dispatch(c):
  st = ClientMessageSinkStack(); term = Terminal(); st.Push(term)
  msg = MethodCallMessage(None, 'm', (), {})
  c.sink._AsyncProcessRequestImpl(st, msg, None, None)
  chosen = [i for i in range(1, c.N + 1) if c.chan[i].reqs]
  return st, term, msg, chosen


def release_method(sink):
  """the balancer's per-request release ("put") method, looked up by what it does rather than by its private name, so
  that a rename of the private method does not break the harness: the method of the heap balancer class that calls the
  _OnPut hook"""
  from scales.loadbalancer.heap import HeapBalancerSink as H
  for name, fn in vars(H).items():
    code = getattr(fn, '__code__', None)
    if code is not None and '_OnPut' in code.co_names and name != '_OnPut':
      return getattr(sink, name)
  raise AttributeError('no release method (a method calling _OnPut) found on HeapBalancerSink')
