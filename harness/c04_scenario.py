"""C04 (b): real ClientTimeoutSink + real TimerQueue + real HeapBalancerSink on the virtual loop.
Symbolic: per call its issue gap, timeout T, reply instant and reply kind (value / error / never),
plus an optional duplicate late reply.  However a call completes, its load is released exactly once."""
import gevent
from symex.values import (check, cover, assume, sand, sor, snot, implies, fresh_real, fresh_int, choose, hdecide,
                          is_concrete, time_const)
from symex import vtime, stubs
from . import fakes
from scales.loadbalancer import heap as heap_mod
from scales.loadbalancer.heap import HeapBalancerSink
from scales.sink import ClientTimeoutSink
from scales.message import MethodReturnMessage, TimeoutError as ScalesTimeout, Deadline
from scales.constants import SinkProperties

Idle = HeapBalancerSink.Idle


def jobs(tier):
  if tier == 'quick':
    return [dict(name='scenario-m2-c1-dup', op='scenario', members=2, calls=1, dup=True, cost=500, shards=4, shard_depth=3),
            dict(name='scenario-m2-c2', op='scenario', members=2, calls=2, dup=False, cost=5000, shards=32, shard_depth=6)]
  return [dict(name='scenario-m2-c1-dup', op='scenario', members=2, calls=1, dup=True, cost=500, shards=4, shard_depth=3),
          dict(name='scenario-m2-c2-dup', op='scenario', members=2, calls=2, dup=True, cost=50000, shards=128, shard_depth=8)]


def make_body(job):
  M = job['members']; NC = job['calls']
  def body():
    vtime.setup()
    heap_mod.random = stubs.SymRandom('heap')
    import scales.loadbalancer.base as base_mod
    base_mod.random = stubs.SymRandom('base')
    ss = fakes.FakeServerSet(M)
    prov = fakes.ChanProvider()
    P = HeapBalancerSink.Builder.PARAMS_CLASS
    bal = HeapBalancerSink(prov, P(server_set_provider=ss), {SinkProperties.Label: 'verif'})
    tsink = ClientTimeoutSink(fakes.OneProvider(bal), None, {SinkProperties.Label: 'verif'})
    bal.Open().wait()
    chans = dict((c.endpoint, c) for c in prov.created)
    nodes = dict((n.endpoint, n) for n in bal._heap[1:])
    inflight = {}          # call -> endpoint, while dispatched and not yet completed at the caller
    done = {}
    violations = []
    def outstanding_ok():
      for ep, n in nodes.items():
        want = sum(1 for c, e in inflight.items() if e == ep)
        if not (n.load - Idle == want): return False
      return True
    def on_done(i):
      def f(term, msg):
        if i in done: violations.append('call %d completed twice' % i)
        done[i] = (vtime.now(), msg)
        inflight.pop(i, None)
        # conservation at the instant the caller is completed
        if not outstanding_ok(): violations.append('load != dispatched-not-completed after completion of %d' % i)
      return f
    calls = []
    for i in range(NC):
      g = fresh_real('gap%d' % i, 0, 2)
      if hdecide(g > 0): gevent.sleep(g)
      T = fresh_real('T%d' % i, 0, 3, lo_strict=True)
      st, term, msg = fakes.new_call(deadline=vtime.now() + T)
      term.on_done = on_done(i)
      before = dict((ep, len(c.requests)) for ep, c in chans.items())
      tsink.AsyncProcessRequest(st, msg, None, {})
      got = [ep for ep, c in chans.items() if len(c.requests) != before[ep]]
      check('dispatched-to-one@%d' % i, len(got) == 1)
      if len(got) != 1: return
      ep = got[0]
      if i not in done: inflight[i] = ep
      check('load-after-dispatch@%d' % i, outstanding_ok())
      kind = choose('kind%d' % i, 3)       # 0 reply, 1 error, 2 never
      rd = fresh_real('reply_after%d' % i, 0, 4)
      dup = choose('dup%d' % i, 2) if job.get('dup') else 0
      dd = fresh_real('dup_after%d' % i, 0, 2)
      def answer(st=st, kind=kind):
        m = MethodReturnMessage(return_value=7) if kind == 0 else MethodReturnMessage(error=Exception('boom'))
        st.AsyncProcessResponseMessage(m)
      if kind != 2:
        gevent.spawn_later(rd, answer)
        if dup: gevent.spawn_later(rd + dd, answer)
      calls.append(dict(T=T, kind=kind, rd=rd, t=vtime.now(), term=term, dup=dup))
    gevent.sleep(12)
    for i, c in enumerate(calls):
      check('completed-exactly-once@%d' % i, len(c['term'].got) == 1)
      if len(c['term'].got) == 1:
        t, m = c['term'].got[0]
        if isinstance(m.error, ScalesTimeout):
          if c['kind'] != 2: cover('timeout-then-late-reply')
        elif c['kind'] != 2: cover('reply-before-timeout')
    check('released-exactly-once', not violations)
    check('all-idle-at-end', all(n.load == Idle for n in nodes.values()))
    check('no-greenlet-error', not vtime.ERRORS)
    bal.Close()
  return body
