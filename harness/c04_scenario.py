"""C04 (b): real ClientTimeoutSink + real TimerQueue + real HeapBalancerSink on the virtual loop.
Symbolic: per call its issue gap, timeout T, reply instant and reply kind (value / error / never),
plus an optional duplicate late reply.  However a call completes, its load is released exactly once."""
import gevent
from symex.values import (check, cover, assume, sand, sor, snot, implies, fresh_real, fresh_int, choose, hdecide,
                          is_concrete, time_const)
from symex import vtime, stubs
from . import fakes
from scales.loadbalancer import heap as heap_mod
from scales.loadbalancer.heap import HeapBalancerSink
from scales.sink import ClientTimeoutSink
from scales.message import MethodReturnMessage, TimeoutError as ScalesTimeout, Deadline
from scales.constants import SinkProperties

Idle = HeapBalancerSink.Idle


def removed_jobs(tier):
  return [dict(name='removed-member-%s' % k, op='scenario', sc='removed', stack=k, cost=2000, shards=16, shard_depth=5) for k in ('T', 'M')]


def removed_member(job):
  """real Thrift / ThriftMux stacks over the fake TCP layer: a member with a call outstanding leaves the server set; the call
  then completes by a reply, by the connection failing, or by its time-out (solver's choice of instants). Afterwards the
  departed member is closed for good: every connection to it is closed and no connection to it is attempted again."""
  from . import stacks
  from .c01 import peer_cls
  from symex import net as netm
  k = job['stack']
  def body():
    e = stacks.setup()
    T = fresh_real('T', 0, 10, lo_strict=True)
    d = fresh_real('server_delay', 0, 15)
    how = choose('completion', 2)       # 0: the server replies after d; 1: the server drops the connection after d
    script = netm.Script(plan=lambda i, p: ('reply', d) if how == 0 else ('close', d))
    eps = {}
    for h, p_ in (('h1', 9001), ('h2', 9002)):
      eps[h] = e.net.endpoint(h, p_, peer=lambda s_: peer_cls(k)(s_, script), connect_delay=0.1)
    ss = fakes.FakeServerSet(2)
    from scales.thrift import Thrift
    from scales.thriftmux import ThriftMux
    c = (ThriftMux if k == 'M' else Thrift).NewBuilder(stacks.Hello.Iface).SetUri('tcp://h1:9001').SetServerSetProvider(ss).SetTimeout(T).Build()
    ar = c.hi_async('x')
    gevent.sleep(0.5)
    served = [p.sock.endpoint.addr[0] for (tt, p, m_, a, tg) in script.requests]
    check('removed.call-dispatched', len(served) == 1)
    if len(served) != 1: return
    host = served[0]
    la = fresh_real('leave_at', 0, 12)
    hdecide(la < d); hdecide(la < T)
    gevent.sleep(la)
    outstanding = len(stacks.events(ar)) == 0
    member = [m for m in ss.members if m.service_endpoint.host == host][0]
    gevent.spawn(ss.on_leave, member)
    t_leave = vtime.now()
    if outstanding: cover(k + ':member-leaves-with-call-outstanding')
    gevent.sleep(150)
    check('removed.call-completed-once', len(stacks.events(ar)) == 1)
    ep = eps[host]
    if outstanding and how == 1 and bool(d < T): cover(k + ':last-call-of-removed-member-fails-with-its-connection')
    check('removed.connections-closed', all(s_.closed or s_.peer_closed for s_ in ep.conns))
    check('removed.all-client-side-closed', all(s_.closed for s_ in ep.conns))
    late = [t for t in ep.attempts if bool(t > t_leave + 20)]
    check('removed.no-reconnect-to-departed-member', not late)
    check('no-greenlet-error', not vtime.ERRORS)
    c.DispatcherClose()
  return body


def jobs(tier):
  if tier == 'quick':
    return [dict(name='scenario-m2-c1-dup', op='scenario', members=2, calls=1, dup=True, cost=500, shards=4, shard_depth=3),
            dict(name='scenario-m2-c2', op='scenario', members=2, calls=2, dup=False, cost=5000, shards=32, shard_depth=6)] + removed_jobs(tier)
  return [dict(name='scenario-m2-c1-dup', op='scenario', members=2, calls=1, dup=True, cost=500, shards=4, shard_depth=3),
          dict(name='scenario-m2-c2-dup', op='scenario', members=2, calls=2, dup=True, cost=50000, shards=128, shard_depth=8)] + removed_jobs(tier)


def make_body(job):
  if job.get('sc') == 'removed': return removed_member(job)
  M = job['members']; NC = job['calls']
  def body():
    vtime.setup()
    heap_mod.random = stubs.SymRandom('heap')
    import scales.loadbalancer.base as base_mod
    base_mod.random = stubs.SymRandom('base')
    ss = fakes.FakeServerSet(M)
    prov = fakes.ChanProvider()
    P = HeapBalancerSink.Builder.PARAMS_CLASS
    bal = HeapBalancerSink(prov, P(server_set_provider=ss), {SinkProperties.Label: 'verif'})
    tsink = ClientTimeoutSink(fakes.OneProvider(bal), None, {SinkProperties.Label: 'verif'})
    bal.Open().wait()
    chans = dict((c.endpoint, c) for c in prov.created)
    nodes = dict((n.endpoint, n) for n in bal._heap[1:])
    inflight = {}          # call -> endpoint, while dispatched and not yet completed at the caller
    done = {}
    violations = []
    def outstanding_ok():
      for ep, n in nodes.items():
        want = sum(1 for c, e in inflight.items() if e == ep)
        if not (n.load - Idle == want): return False
      return True
    def on_done(i):
      def f(term, msg):
        if i in done: violations.append('call %d completed twice' % i)
        done[i] = (vtime.now(), msg)
        inflight.pop(i, None)
        # conservation at the instant the caller is completed
        if not outstanding_ok(): violations.append('load != dispatched-not-completed after completion of %d' % i)
      return f
    calls = []
    for i in range(NC):
      g = fresh_real('gap%d' % i, 0, 2)
      if hdecide(g > 0): gevent.sleep(g)
      T = fresh_real('T%d' % i, 0, 3, lo_strict=True)
      st, term, msg = fakes.new_call(deadline=vtime.now() + T)
      term.on_done = on_done(i)
      before = dict((ep, len(c.requests)) for ep, c in chans.items())
      tsink.AsyncProcessRequest(st, msg, None, {})
      got = [ep for ep, c in chans.items() if len(c.requests) != before[ep]]
      check('dispatched-to-one@%d' % i, len(got) == 1)
      if len(got) != 1: return
      ep = got[0]
      if i not in done: inflight[i] = ep
      check('load-after-dispatch@%d' % i, outstanding_ok())
      kind = choose('kind%d' % i, 3)       # 0 reply, 1 error, 2 never
      rd = fresh_real('reply_after%d' % i, 0, 4)
      dup = choose('dup%d' % i, 2) if job.get('dup') else 0
      dd = fresh_real('dup_after%d' % i, 0, 2)
      def answer(st=st, kind=kind):
        m = MethodReturnMessage(return_value=7) if kind == 0 else MethodReturnMessage(error=Exception('boom'))
        st.AsyncProcessResponseMessage(m)
      if kind != 2:
        gevent.spawn_later(rd, answer)
        if dup: gevent.spawn_later(rd + dd, answer)
      calls.append(dict(T=T, kind=kind, rd=rd, t=vtime.now(), term=term, dup=dup))
    gevent.sleep(12)
    for i, c in enumerate(calls):
      check('completed-exactly-once@%d' % i, len(c['term'].got) == 1)
      if len(c['term'].got) == 1:
        t, m = c['term'].got[0]
        if isinstance(m.error, ScalesTimeout):
          if c['kind'] != 2: cover('timeout-then-late-reply')
        elif c['kind'] != 2: cover('reply-before-timeout')
    check('released-exactly-once', not violations)
    check('all-idle-at-end', all(n.load == Idle for n in nodes.values()))
    check('no-greenlet-error', not vtime.ERRORS)
    bal.Close()
  return body
