"""C06 — the aperture keeps a partitioned, bounded, load-tracking active subset.
Inductive steps of the real ApertureBalancerSink over symbolic reals (EMA, load band, time) and
symbolic integers (sizes, outstanding counts); one jitter round on the virtual loop."""
import logging
logging.disable(logging.CRITICAL)
import gevent
import z3
from symex.values import (SymInt, SymReal, check, cover, assume, sand, sor, snot, implies, siff, fresh_int, fresh_real, choose,
                          is_concrete, hdecide, ite, lift_real)
from symex import vtime, stubs
from . import balancer as B
from .balancer import Idle, Pen
from .fakes import Ep, Member, FakeServerSet, ChanProvider
import scales.loadbalancer.heap as heap_mod
import scales.loadbalancer.aperture as ap_mod
import scales.loadbalancer.base as base_mod
import scales.varz as vz
import scales.timer_queue as tqm
from scales.loadbalancer.aperture import ApertureBalancerSink
from scales.constants import ChannelState, SinkProperties, MessageProperties
from scales.sink import ClientMessageSinkStack
from scales.message import MethodCallMessage

PROPERTY = 'C06'
INDUCTION_PREFIXES = ('inv.',)
INFO = dict(
  explanation='One step of the real ApertureBalancerSink._AdjustAperture(+1/-1) (through _OnGet/_OnPut of a real dispatch / completion, and '
              'directly), _TryExpandAperture, _ContractAperture, _OnNodeDown and varz.Ema.Update / MonoClock.Sample from an arbitrary state: '
              'min_size <= max_size (symbolic ints), 0 < min_load < max_load (symbolic reals), the EMA value v >= 0, the outstanding total, the '
              'time since the last sample dt >= 0 (symbolic reals; exp(-dt/W) is a fresh weight w in (0,1], w = 1 iff dt = 0), per-member '
              'outstanding counts and channel states, explicit shapes for active/idle/pending members. Oracle (the property\'s own rule, evaluated '
              'by z3 over nonlinear real arithmetic): with load\' = (total\'(1-w) + v w)/size: expanded by one idle member iff load\' >= max_load '
              'and idle non-empty and size < max_size; else contracted by one iff load\' <= min_load and size > min_size and nothing pending and '
              'healthy > min_size, preferring a closed member; else unchanged; active and idle stay a partition of the members; contraction never '
              'below min(min_size, members); load-driven growth never beyond max_size; the new EMA lies between the old EMA and the new total; '
              'a member marked down triggers expansion when an idle member exists; a jitter round on the virtual loop keeps the partition and the '
              'active size. Dispatch on the aperture also re-checks the least-loaded rule (C03) and total = sum of outstanding (C04).',
  bounds={'quick': 'active <= 3, idle <= 2, <= 1 pending; sizes/band/EMA/time symbolic', 'thorough': 'active <= 4, idle <= 2, <= 1 pending'},
  outside=['convergence over many steps (claimed only as the one-step progress rule; a liveness statement over unbounded time)',
           'the numerical value of exp() (only 0 < w <= 1 and w = 1 iff dt = 0 are used)', 'jitter scheduling times (random interval)'],
  stubs=['math.exp / float in scales.varz -> weight stub (3.8)', 'time.time -> virtual clock; MonoClock/Ema state set symbolically',
         'random.* -> symbolic (3.3)', 'LOW_RESOLUTION_TIMER_QUEUE / TIME_SOURCE in scales.loadbalancer.aperture -> fresh queue on the virtual clock',
         'fake channels (3.12)'],
  assumptions=['A2 exact reals (EMA arithmetic)', 'invariant = reachable states'],
)
EXPECT_COVERS = ['drain-completes', 'adjust-expands', 'adjust-contracts', 'adjust-contract-blocked-by-pending', 'adjust-contract-blocked-by-health',
                 'adjust-unchanged-in-band', 'adjust-expand-blocked-at-max', 'contract-prefers-closed', 'nodedown-expands', 'jitter-round']


def jobs(tier):
  na_max = 3 if tier == 'quick' else 4
  js = []
  for na in range(0, na_max + 1):
    for ni in range(0, 3):
      for pend in (0, 1):
        if pend and na == 0: continue
        for amount in (1, -1):
          js.append(dict(name='adjust%+d-a%d-i%d-p%d' % (amount, na, ni, pend), op='adjust', na=na, ni=ni, pend=pend, amount=amount,
                         cost=6 ** na))
      if na:
        js.append(dict(name='dispatch-a%d-i%d' % (na, ni), op='dispatch', na=na, ni=ni, pend=0, cost=8 ** na))
        for v in range(1, na + 1):
          js.append(dict(name='complete%d-a%d-i%d' % (v, na, ni), op='complete', v=v, na=na, ni=ni, pend=0, cost=8 ** na))
  if tier != 'quick':
    for j in [j for j in js if j['op'] == 'adjust' and j['na'] <= 2]:
      jj = dict(j); jj['name'] = j['name'] + '-symw'; jj['symbolic_weight'] = True; jj['max_seconds'] = 3600; js.append(jj)
  for na in range(0, na_max + 1):
    for ni in (0, 1):
      js.append(dict(name='drain-a%d-i%d' % (na, ni), op='drain', na=na, ni=ni, pend=0, cost=6 ** na))
  for na in (1, 2):
    for ni in (1, 2):
      js.append(dict(name='jitter-a%d-i%d' % (na, ni), op='jitter', na=na, ni=ni, pend=0, cost=50))
  return js


def build(job):
  na, ni, pend = job['na'], job['ni'], job['pend']
  heap_mod.random = stubs.SymRandom('heap'); ap_mod.random = stubs.SymRandom('ap'); base_mod.random = stubs.SymRandom('base')
  vz.math = stubs.SymMath(); vz.float = stubs.sym_float
  from fractions import Fraction
  stubs.EXP_CHOICES = None if job.get('symbolic_weight') else (1, Fraction(1, 2), Fraction(1, 16))
  C = ApertureBalancerSink
  ss = FakeServerSet(0); prov = ChanProvider()
  d = dict(C.Builder._defaults); d['server_set_provider'] = ss
  mins = fresh_int('min_size', 0, 4); maxs = fresh_int('max_size', 0, 5)
  minl = fresh_real('min_load', 0, 100, lo_strict=True); maxl = fresh_real('max_load', 0, 100, lo_strict=True)
  assume(sand(mins <= maxs, minl < maxl))
  d.update(min_size=mins, max_size=maxs, min_load=minl, max_load=maxl, jitter_min_sec=0, jitter_max_sec=0)
  s = C(prov, C.Builder.PARAMS_CLASS(**d), {SinkProperties.Label: 'verif'})
  s._open = True; s._state = ChannelState.Open
  s._LoadBalancerSink__init_done.set()
  import scales.varz as _v
  _v.VarzReceiver.SetVarz = staticmethod(lambda *a: None)
  c = B.Ctx(); c.sink = s; c.N = na; c.prov = prov; c.cfg = (mins, maxs, minl, maxl)
  c.members = [Member(Ep('h%d' % i, 9000 + i)) for i in range(1, na + ni + 1)]
  c.out = {}; c.st = {}; c.chan = {}; c.nodes = {}; c.stale = None
  for i in range(1, na + 1):
    m = c.members[i - 1]
    s._servers[m.service_endpoint] = (lambda m=m: prov.CreateSink({SinkProperties.Endpoint: m.service_endpoint}))
    c.out[i] = fresh_int('out%d' % i, 0, B.OUT_MAX)
    c.st[i] = fresh_int('st%d' % i, 1, 4)
    ch = B.Chan(i, c.st[i]); c.chan[i] = ch
    n = C.Node(ch, Idle + c.out[i], i, m.service_endpoint)
    s._heap.append(n); c.nodes[i] = n
  s._size = na
  for i in range(2, na + 1):
    assume(snot(c.nodes[i].load < c.nodes[i // 2].load))
  for j in range(na + 1, na + ni + 1):
    m = c.members[j - 1]
    s._servers[m.service_endpoint] = (lambda m=m: prov.CreateSink({SinkProperties.Endpoint: m.service_endpoint}))
    s._idle_endpoints.add(m.service_endpoint)
  if pend:
    s._pending_endpoints.add(c.members[0].service_endpoint)
  drain = fresh_int('draining_outstanding', 0, B.OUT_MAX)
  c.total = (sum(c.out[i] for i in c.out) if c.out else 0) + drain
  s._total = c.total
  # EMA / clock state
  c.v = fresh_real('ema', 0, 10 ** 6)
  c.dt = fresh_real('dt', 0, 10 ** 4)
  now = vtime.now()
  s._ema.value = c.v; s._ema._time = now - c.dt
  s._time._last = now - c.dt
  return c


def partition_ok(c, tag):
  s = c.sink
  eps = [n.endpoint for n in s._heap[1:]]; idle = list(s._idle_endpoints)
  R = [m.service_endpoint for m in c.members]
  check(tag + '.partition', len(set(eps)) == len(eps) and not (set(eps) & set(idle)) and set(eps) | set(idle) == set(R))
  check('inv.shape', s._size == len(eps) and len(s._heap) == len(eps) + 1 and all(s._heap[i].index == i for i in range(1, s._size + 1)))
  for i in range(2, s._size + 1):
    check('inv.order@%d' % i, snot(s._heap[i].load < s._heap[i // 2].load))


def adjust_oracle(c, job, amount, size_before, idle_before, pend, tag, states=None):
  """the property's expand/contract rule, decided by z3 over the symbolic state"""
  s = c.sink
  mins, maxs, minl, maxl = c.cfg
  na = size_before
  w = None
  E = __import__('symex.engine', fromlist=['ENG']).ENG
  # the weight the code drew for exp(-dt/W): the last declared expw variable
  from fractions import Fraction as _F
  if stubs.EXP_CHOICES:
    # the weight the code used: reconstruct it from the EMA value it stored (w = 1 when dt = 0, else the chosen constant)
    rest = [_F(x) for x in stubs.EXP_CHOICES if _F(x) != 1]
    src = E.vars if not is_concrete() else E.concrete_vals
    names = sorted([n for n in src if n.startswith('expw_choice')], key=lambda n: (len(n), n))
    from symex.values import Exact
    if bool(c.dt == 0): wv = _F(1)
    elif names:
      idx = int(E.concrete_vals[names[-1]]) if is_concrete() else SymInt(E.vars[names[-1]][1]).unique()
      wv = rest[idx] if idx is not None else None
    else: wv = None
    w = None if wv is None else (Exact(wv) if is_concrete() else SymReal(z3.RealVal(str(wv))))
  elif not is_concrete():
    names = [n for n in E.vars if n.startswith('expw')]
    w = SymReal(E.vars[names[-1]][1]) if names else None
  else:
    names = [n for n in E.concrete_vals if n.startswith('expw')]
    from symex.values import Exact
    from fractions import Fraction
    w = Exact(Fraction(E.concrete_vals[sorted(names)[-1]])) if names else None
  total2 = c.total + amount
  if w is None and bool(c.dt == vtime.T0 + 1):
    w = 0            # the EMA's 'never updated' state (_time == -1): the first sample is taken as it is
    cover('ema-first-sample')
  if w is None and stubs.exp_calls() == 0:
    # the code drew no weight in this step (it did not evaluate exp(-dt/window)): the reference draws its own, so that an
    # update that skips the smoothing for some dt > 0 is still compared with the defining formula
    import scales.varz as _vz
    w = _vz.math.exp(-_vz.float(c.dt) / s._ema._window) if s._ema._window else 0
    cover('reference-draws-the-weight')
  if w is None:
    return
  ema2 = total2 * (1 - w) + c.v * w
  check(tag + '.ema-value', s._ema.value == ema2)
  check(tag + '.ema-between', sor(sand(ema2 >= c.v, ema2 <= total2), sand(ema2 <= c.v, ema2 >= total2)))
  check(tag + '.total', s._total == total2)
  size2 = s._size
  if na == 0:
    load_ge_max = True; load_le_min = False
  else:
    load_ge_max = ema2 >= maxl * na; load_le_min = ema2 <= minl * na
  st = states or c.st
  healthy = sum([ite(st[i] <= ChannelState.Busy, 1, 0) for i in range(1, na + 1)]) if na else 0
  exp_cond = sand(load_ge_max, idle_before > 0, na < maxs)
  con_try = sand(snot(exp_cond), load_le_min, na > mins)
  con_cond = sand(con_try, pend == 0, healthy > mins)
  if size2 == na + 1:
    cover('adjust-expands')
    check(tag + '.expand-only-when-rule-says', exp_cond)
    check(tag + '.expand-takes-idle-member', len(s._idle_endpoints) == idle_before - 1)
    check(tag + '.growth-within-max', size2 <= maxs)
  elif size2 == na - 1:
    cover('adjust-contracts')
    check(tag + '.contract-only-when-rule-says', con_cond)
    check(tag + '.contract-to-idle', len(s._idle_endpoints) == idle_before + 1)
    nm = len(c.members)
    check(tag + '.contract-not-below-min', size2 >= ite(mins <= nm, mins, nm))
  else:
    check(tag + '.size-changes-by-at-most-one', size2 == na)
    check(tag + '.unchanged-only-when-rule-says', sand(snot(exp_cond), snot(con_cond)))
    if bool(con_try) and pend: cover('adjust-contract-blocked-by-pending')
    elif bool(con_try): cover('adjust-contract-blocked-by-health')
    elif bool(sand(load_ge_max, idle_before > 0)): cover('adjust-expand-blocked-at-max')
    else: cover('adjust-unchanged-in-band')


def make_body(job):
  op = job['op']
  def body():
    vtime.setup()
    c = build(job)
    s = c.sink
    na, ni, pend = job['na'], job['ni'], job['pend']
    if op == 'adjust':
      amount = job['amount']
      if amount < 0: assume(c.total >= 1)
      closed_before = [i for i in range(1, na + 1)]
      s._AdjustAperture(amount)
      adjust_oracle(c, job, amount, na, ni, pend, 'adjust')
      if s._size == na - 1:
        # preferred victim: a closed, non-pending member if one exists
        gone = [i for i in range(1, na + 1) if c.nodes[i].index == -1]
        check('contract.one-victim', len(gone) == 1)
        if len(gone) == 1:
          g = gone[0]
          anyclosed = sor(*[sand(c.st[i] == ChannelState.Closed, not (pend and i == 1)) for i in range(1, na + 1)])
          check('contract.prefers-closed-member', implies(anyclosed, c.st[g] == ChannelState.Closed))
          if bool(anyclosed): cover('contract-prefers-closed')
          check('contract.victim-not-pending', not (pend and g == 1))
      partition_ok(c, 'adjust')
    elif op == 'dispatch':
      # the members in the aperture at the moment of selection (expansion by _OnNodeDown happens before
      # the selection, expansion by _OnGet after it)
      snap = {}
      orig_onget = s._OnGet
      def onget(n):
        snap['eps'] = [x.endpoint for x in s._heap[1:]]
        orig_onget(n)
      s._OnGet = onget
      st_, term, msg, chosen = B.dispatch(c)
      newc = [x for x in c.prov.created if x.endpoint in snap.get('eps', [])]
      late = [x for x in c.prov.created if x.endpoint not in snap.get('eps', [])]
      check('dispatch.late-members-not-used', all(len(x.requests) == 0 for x in late))
      for k, x in enumerate(newc):
        idx = na + 1 + k
        c.chan[idx] = x; c.st[idx] = x.state; c.out[idx] = 0
      chosen = [i for i in c.chan if (c.chan[i].reqs if isinstance(c.chan[i], B.Chan) else len(c.chan[i].requests))]
      check('dispatch.one-member', len(chosen) == 1)
      if len(chosen) != 1: return
      ch = chosen[0]
      c.N = na + len(newc)
      from .c03 import least_loaded_oracle
      check('dispatch.least-loaded-open-in-aperture', least_loaded_oracle(c, ch))
      went_down = [i for i in range(1, na + 1) if bool(c.nodes[i].load >= 0)]
      if went_down and ni and any(bool(snot(c.st[i] == ChannelState.Idle)) for i in went_down):
        cover('nodedown-expands')
        check('nodedown.expands', len(newc) >= 1)
      check('dispatch.total', s._total == c.total + 1)
      partition_ok(c, 'dispatch')
    elif op == 'complete':
      v = job['v']
      assume(c.out[v] >= 1)
      B.release_method(s)(c.nodes[v])
      check('complete.total', s._total == c.total - 1)
      partition_ok(c, 'complete')
      nm = len(c.members)
      mins = c.cfg[0]
      if s._size < na: check('complete.contract-not-below-min', s._size >= ite(mins <= nm, mins, nm))
    elif op == 'drain':
      # a request completes on a member that already left the aperture (evicted or departed while loaded):
      # the outstanding total feeding the load average must still go down by exactly one
      ch = B.Chan(99, fresh_int('st_drain', 1, 4))
      dn = ApertureBalancerSink.Node(ch, Idle + fresh_int('out_drain', 1, B.OUT_MAX), -1, Ep('gone', 1))
      assume(c.total >= dn.load - Idle)        # its outstanding requests are part of the total
      out = dn.load - Idle
      B.release_method(s)(dn)
      cover('drain-completes')
      check('drain.total-decremented', s._total == c.total - 1)
      check('drain.close-iff-last', siff(ch.closed == 1, out == 1))
      partition_ok(c, 'drain')
    elif op == 'jitter':
      q = tqm.TimerQueue(time_source=vtime.now, resolution=1)
      class TS(object): pass
      ts = TS(); ts.now = vtime.now()
      ap_mod.LOW_RESOLUTION_TIMER_QUEUE = q; ap_mod.LOW_RESOLUTION_TIME_SOURCE = ts
      s._jitter_min = 1; s._jitter_max = 2
      g = gevent.spawn(s._Jitter)
      gevent.sleep(0.5)
      cover('jitter-round')
      check('jitter.finished', g.ready() and g.exception is None)
      check('jitter.pending-cleared', not s._pending_endpoints)
      check('jitter.size-kept-or-grown-by-one', s._size in (na, na + 1))
      # the round is a swap (size unchanged) whenever more than min_size members are healthy after the expansion
      healthy_after = sum([ite(c.st[i] <= ChannelState.Busy, 1, 0) for i in range(1, na + 1)]) + 1
      check('jitter.swap-when-contraction-possible', implies(healthy_after > c.cfg[0], s._size == na))
      check('jitter.grows-only-when-contraction-impossible', implies(s._size == na + 1, healthy_after <= c.cfg[0]))
      partition_ok(c, 'jitter')
      q._worker.kill(block=False)
  return body


