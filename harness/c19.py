"""C19 — the ZooKeeper server set reports exactly the membership changes that occurred.
The real scales ServerSet with kazoo's REAL DataWatch / ChildrenWatch recipes over an in-memory
znode tree with one-shot watches delivered in order after symbolic delays, on the virtual loop."""
import json, logging
logging.disable(logging.CRITICAL)
import gevent, gevent.queue
from symex.values import (define, check, cover, assume, sand, sor, snot, implies, fresh_real, fresh_int, choose, hdecide, is_concrete)
from symex import vtime
from kazoo.client import KazooClient
from kazoo.exceptions import NoNodeError, NotEmptyError
from kazoo.protocol.states import WatchedEvent, EventType, KazooState, ZnodeStat
from kazoo.handlers.gevent import SequentialGeventHandler
from scales.loadbalancer.zookeeper import ServerSet

PROPERTY = 'C19'
INFO = dict(
  explanation='The real scales.loadbalancer.zookeeper.ServerSet (_monitor, _data_changed, _begin_watch, _on_set_changed, _notification_worker, '
              "_send_all_removed, __iter__/get_members, Member.from_node) runs with kazoo's real DataWatch and ChildrenWatch recipes over an "
              'in-memory znode tree (one-shot watches; a parent can only be deleted when empty; watch events are delivered to the client in the '
              'order they occurred, each after a SYMBOLIC delay, so reads made by the callbacks see a later tree: members vanish between listing '
              'and reading, a parent is re-created before the deletion is noticed, ...). The history of tree operations (create / delete member, '
              'delete and re-create the watched path; member names from a 3-name universe) is chosen by symbolic choice; a consumer callback may '
              'raise. Oracle at quiescence: applying the delivered joins/leaves in order leaves exactly the members present in the tree; no member '
              'joins twice or leaves twice without the opposite event in between; a raising callback does not stop later notifications. '
              'The solver decides orderings and name aliasing only: the weakest fit of the technique among the claimed properties.',
  bounds={'quick': 'every history of k <= 3 tree operations after the initial state (3 member names) plus two scripted 5-operation histories (reading a member\'s data takes a symbolic while so that it can vanish before it is read, path deleted and re-created with the same member names, an application thread calling get_members() with slow reads while members are deleted), all with symbolic gaps and delivery delays', 'thorough': 'k <= 5 operations'},
  outside=['real ZooKeeper session events (disconnect / expiry)', 'more than 3 distinct member names', 'malformed member data'],
  stubs=['in-memory znode tree + KazooClient subclass overriding get/exists/get_children/retry/start/stop (3.11); kazoo recipes are the real ones',
         'virtual loop (3.1)'],
  assumptions=['ZooKeeper delivers watch events to a client in the order the changes happened', 'A1, A3'],
)
EXPECT_COVERS = ['members-listed-during-changes', 'member-created', 'member-deleted', 'parent-deleted', 'parent-recreated', 'member-vanished-before-read', 'callback-raises']

NAMES = ['member_A', 'member_B', 'member_C']


def member_blob(i):
  return json.dumps({'serviceEndpoint': {'host': 'h%d' % i, 'port': 9000 + i}, 'additionalEndpoints': {}, 'status': 'ALIVE'}).encode()


class Tree(object):
  def __init__(self, delays):
    self.nodes = {}; self.zxid = 0; self.data_w = {}; self.child_w = {}
    self.q = gevent.queue.Queue(); self.delays = delays; self.nev = 0
    self.last_ready = None
    self.parent_change_seen_at = []      # when the client gets to see each deletion / creation of the watched path
    self.worker = gevent.spawn(self._deliver)
  def _deliver(self):
    # watch events reach the client in order; each one after its own (symbolic) delay
    while True:
      ready, w, ev = self.q.get()
      d = ready - vtime.now()
      if d > 0: gevent.sleep(d)
      try: w(ev)
      except Exception: pass
  def _fire(self, table, path, typ):
    ws = table.pop(path, [])
    for w in ws:
      d = self.delays(self.nev); self.nev += 1
      ready = vtime.now() + d
      # events are delivered in order: one that is queued behind a slower one is seen no earlier than that one
      if self.last_ready is not None and bool(self.last_ready > ready): ready = self.last_ready
      self.last_ready = ready
      self.q.put((ready, w, WatchedEvent(typ, KazooState.CONNECTED, path)))
      if table is self.data_w and path == '/svc': self.parent_change_seen_at.append(ready)
  def create(self, path, data=b''):
    self.zxid += 1; self.nodes[path] = (data, self.zxid)
    parent = path.rsplit('/', 1)[0] or '/'
    self._fire(self.data_w, path, EventType.CREATED); self._fire(self.child_w, parent, EventType.CHILD)
  def delete(self, path):
    if any(p.startswith(path + '/') for p in self.nodes): raise NotEmptyError()
    del self.nodes[path]; self.zxid += 1
    parent = path.rsplit('/', 1)[0] or '/'
    self._fire(self.data_w, path, EventType.DELETED); self._fire(self.child_w, path, EventType.DELETED)
    self._fire(self.child_w, parent, EventType.CHILD)
  def stat(self, path):
    z = self.nodes[path][1]; return ZnodeStat(z, z, 0, 0, 0, 0, 0, 0, len(self.nodes[path][0]), 0, z)
  def children(self, path):
    return sorted(p[len(path) + 1:] for p in self.nodes if p.startswith(path + '/') and '/' not in p[len(path) + 1:])


class FakeZk(KazooClient):
  def __init__(self, tree):
    self.tree = tree; self.handler = SequentialGeventHandler(); self._listeners = []; self.vanished = 0; self.read_delay = None; self.reads_in_progress = 0
  connected = True
  def start(self, timeout=15): pass
  def stop(self): pass
  def add_listener(self, l): self._listeners.append(l)
  def remove_listener(self, l): pass
  def retry(self, func, *a, **k): return func(*a, **k)
  def exists(self, path, watch=None):
    if watch: self.tree.data_w.setdefault(path, []).append(watch)
    return self.tree.stat(path) if path in self.tree.nodes else None
  def get(self, path, watch=None):
    if getattr(gevent.getcurrent(), 'slow_listing', None) is not None and path.count('/') >= 2:
      d = gevent.getcurrent().slow_listing()      # a caller of get_members() reads member data slowly
      if d is not None:
        self.reads_in_progress += 1
        try: gevent.sleep(d)
        finally: self.reads_in_progress -= 1
    elif self.read_delay is not None and path.count('/') >= 2:
      d = self.read_delay()             # reading a member's data takes a (symbolic) while: it may vanish meanwhile
      if d is not None:
        self.reads_in_progress += 1
        try: gevent.sleep(d)
        finally: self.reads_in_progress -= 1
    if path not in self.tree.nodes:
      self.vanished += 1
      raise NoNodeError()
    if watch: self.tree.data_w.setdefault(path, []).append(watch)
    return self.tree.nodes[path][0], self.tree.stat(path)
  def get_children(self, path, watch=None, include_data=False):
    if path not in self.tree.nodes: raise NoNodeError()
    if watch: self.tree.child_w.setdefault(path, []).append(watch)
    return self.tree.children(path)


def jobs(tier):
  k = 3 if tier == 'quick' else 5
  scripts = {'vanish-then-recreate': ['create:member_B', 'delete:member_B', 'rmparent', 'mkparent', 'create:member_B'],
             'recreate-same-names': ['create:member_B', 'rmparent', 'mkparent', 'create:member_A', 'create:member_B'],
             'list-while-member-deleted': ['getmembers', 'delete:member_A', 'create:member_B']}
  return [dict(name='history-script-%s' % n, k=len(ops), script=ops, raising=False, slow_reads=3 if n.startswith('vanish') else 0, cost=2000, shards=16, shard_depth=5) for n, ops in sorted(scripts.items())] + [
          dict(name='history-k%d' % k, k=k, raising=False, cost=5000, shards=32, shard_depth=6),
          dict(name='history-k%d-raising' % min(k, 3), k=min(k, 3), raising=True, cost=5000, shards=16, shard_depth=5)]


def make_body(job):
  K = job['k']
  def body():
    vtime.setup()
    delays = {}
    def delay(i):
      if i not in delays: delays[i] = fresh_real('watch_delay%d' % i, 0, 2)
      return delays[i]
    t = Tree(delay); zk = FakeZk(t)
    if job.get('slow_reads'):
      nread = [0]
      def rd():
        nread[0] += 1
        if nread[0] != job['slow_reads']: return None       # only the read of the newly listed member is slow
        d = fresh_real('read_takes%d' % nread[0], 0, 1)
        return d if hdecide(d > 0) else None
      zk.read_delay = rd
    t.create('/svc'); t.create('/svc/member_A', member_blob(0))
    view = {}; log = []; raised = []; aba = []; spans = []; listed = []
    will_raise = job['raising']
    raise_at = choose('raising_callback_index', 3) if will_raise else -1      # which delivered notification raises
    ncb = [0]
    def maybe_raise():
      ncb[0] += 1
      if will_raise and ncb[0] - 1 == raise_at:
        raised.append(1); cover('callback-raises'); raise RuntimeError('consumer bug')
    def on_join(m):
      log.append(('join', m.name)); view[m.name] = m
      maybe_raise()
    def on_leave(m):
      log.append(('leave', m.name)); view.pop(m.name, None)
      maybe_raise()
    ss = ServerSet(zk, '/svc', on_join, on_leave, lambda n: n.startswith('member_'))
    initial = [m.name for m in ss.get_members()]
    gevent.sleep(3)
    for step in range(K):
      g = fresh_real('gap%d' % step, 0, 3)
      if hdecide(g > 0): gevent.sleep(g)
      present = t.children('/svc') if '/svc' in t.nodes else None
      ops = []
      if present is None: ops.append(('mkparent', None))
      else:
        for i, n in enumerate(NAMES):
          ops.append(('delete', n) if n in present else ('create', n))
        ops.append(('rmparent', None))
      if job.get('script') and job['script'][step] == 'getmembers':
        # an application thread lists the members (public get_members()) while the tree keeps changing; its reads of the
        # member data take a symbolic while, so a member can vanish between being listed and being read
        def lister():
          def slow():
            d = fresh_real('listing_read_takes%d' % len(listed), 0, 2)
            return d if hdecide(d > 0) else None
          gevent.getcurrent().slow_listing = slow
          try: listed.append(sorted(m.name for m in ss.get_members()))
          except Exception as ex: listed.append(ex)
        gevent.spawn(lister); cover('members-listed-during-changes')
        continue
      if job.get('script'):
        want = job['script'][step].split(':')
        cand = [o for o in ops if o[0] == want[0] and (len(want) == 1 or o[1] == want[1])]
        if not cand: continue
        op, n = cand[0]
      else:
        op, n = ops[choose('op%d' % step, len(ops))]
      if op == 'create': t.create('/svc/' + n, member_blob(NAMES.index(n))); cover('member-created')
      elif op == 'delete': t.delete('/svc/' + n); cover('member-deleted')
      elif op == 'mkparent':
        # ghost: does the path change again before the client has seen its previous change?
        if t.parent_change_seen_at: aba.append(vtime.now() <= t.parent_change_seen_at[-1])
        t.create('/svc'); cover('parent-recreated')
      else:
        for c in list(present): t.delete('/svc/' + c)
        if t.parent_change_seen_at: aba.append(vtime.now() <= t.parent_change_seen_at[-1])
        if zk.reads_in_progress: spans.append(True)
        t.delete('/svc'); cover('parent-deleted')
    gevent.sleep(30)
    define('path_changed_again_before_change_seen', sor(*aba) if aba else False)
    define('member_read_in_progress_when_path_deleted', bool(spans))
    if zk.vanished: cover('member-vanished-before-read')
    actual = set(t.children('/svc')) if '/svc' in t.nodes else set()
    check('view-equals-tree-members', set(view.keys()) == actual)
    # no double join / double leave
    state = {}       # existing members are announced through on_join when the watch starts
    ok = True
    for kind, name in log:
      if kind == 'join':
        if state.get(name): ok = False
        state[name] = True
      else:
        if not state.get(name): ok = False
        state[name] = False
    check('no-double-join-or-leave', ok)
    if will_raise and raised:
      check('later-notifications-survive-a-raising-callback', set(view.keys()) == actual)
    check('no-greenlet-error', not [e for e in vtime.ERRORS])
    ss.stop(); t.worker.kill(block=False)
  return body
