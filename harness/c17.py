"""C17 — async combinators resolve correctly for every completion order.
Real scales.asynchronous.AsyncResult (WhenAll / WhenAny / Unwrap / ContinueWith / Map) on the virtual
loop; per input: success flag, completion instant (symbolic, or already complete at call time)."""
import gevent
from symex.values import (check, cover, assume, sand, sor, snot, implies, fresh_real, fresh_int, choose, hdecide,
                          is_concrete, time_const)
from symex import vtime
from scales.asynchronous import AsyncResult

PROPERTY = 'C17'
INFO = dict(
  explanation='The real AsyncResult.WhenAll / WhenAny / Unwrap / ContinueWith / Map run on the virtual-time loop over n inputs; for each input '
              'the solver chooses success or failure and whether it is already complete at call time or completes after a symbolic delay '
              '(so every completion order, including simultaneous completions, is a solver decision). After EVERY completion step the combined '
              'result is compared with reference semantics: WhenAll ready iff some input failed or all are done, successful iff all succeeded, '
              'value = inputs\' values in input order, never flips after failing; WhenAny = value of the first input to succeed (in completion '
              'order; inputs complete at call time count first, in input order) and stays so, fails only when all failed, with the last failure; '
              'Unwrap = innermost plain value or first failure of a nested chain; ContinueWith runs its continuation exactly once after completion '
              'and captures value or raised exception; Map calls its function only for successes.',
  bounds={'quick': 'n <= 3 inputs (n = 0 for WhenAll included), Unwrap depth <= 3', 'thorough': 'n <= 5 inputs, Unwrap depth <= 5'},
  outside=['more inputs / deeper nesting', 'WhenAny of no inputs (no first/last input exists)'],
  stubs=['virtual-time loop (3.1); real gevent AsyncResult/links/greenlets'],
  assumptions=['A1, A3'],
)
EXPECT_COVERS = ['whenany-precompleted-failure-then-success', 'whenany-late-failure-after-success', 'whenall-empty',
                 'whenall-failure-before-all-done', 'unwrap-inner-failure', 'map-skipped-on-failure', 'continuation-raises', 'map-function-raises']


def jobs(tier):
  mx = 3 if tier == 'quick' else 5
  js = []
  for n in range(0, mx + 1):
    js.append(dict(name='whenall-n%d' % n, op='whenall', n=n, cost=6 ** n, shards=1 if n < 3 else (8 if n == 3 else (32 if n == 4 else 128)), shard_depth=2 * n))
    if n: js.append(dict(name='whenany-n%d' % n, op='whenany', n=n, cost=6 ** n, shards=1 if n < 3 else (8 if n == 3 else (32 if n == 4 else 128)), shard_depth=2 * n))
  for d in range(1, mx + 1):
    js.append(dict(name='unwrap-d%d' % d, op='unwrap', n=d, cost=4 ** d))
  js.append(dict(name='continue', op='continue', n=1, cost=5))
  js.append(dict(name='map', op='map', n=1, cost=5))
  return js


class Inp(object):
  pass


def make_inputs(n):
  """n inputs; returns (inputs, starter) — starter() schedules the delayed completions"""
  ins = []
  for i in range(n):
    x = Inp(); x.i = i; x.ar = AsyncResult(); x.ok = bool(choose('ok%d' % i, 2)); x.val = 100 + i
    x.exc = Exception('e%d' % i); x.pre = bool(choose('pre%d' % i, 2)); x.done_seq = None
    x.delay = None if x.pre else fresh_real('delay%d' % i, 0, 5, lo_strict=True)
    ins.append(x)
  return ins


def complete(x, order):
  if x.ok: x.ar.set(x.val)
  else: x.ar.set_exception(x.exc)
  x.done_seq = len(order); order.append(x.i)


def make_body(job):
  op = job['op']; n = job['n']
  def body():
    vtime.setup()
    order = []
    if op in ('whenall', 'whenany'):
      ins = make_inputs(n)
      for x in ins:
        if x.pre: complete(x, order)
      snaps = []
      combined = (AsyncResult.WhenAll if op == 'whenall' else AsyncResult.WhenAny)([x.ar for x in ins])
      def snap():
        st = (list(order), combined.ready(), combined.successful() if combined.ready() else None,
              combined.value if combined.ready() and combined.successful() else None,
              combined.exception if combined.ready() else None)
        snaps.append(st)
      def later(x):
        gevent.sleep(x.delay)
        complete(x, order)
        gevent.sleep(0); gevent.sleep(0)
        snap()
      gevent.sleep(0); gevent.sleep(0); snap()
      for x in ins:
        if not x.pre: gevent.spawn(later, x)
      gevent.sleep(8)
      snap()
      for (done, ready, succ, val, exc) in snaps:
        d = [ins[i] for i in done]
        if op == 'whenall':
          if n == 0: cover('whenall-empty')
          anyfail = [x for x in d if not x.ok]
          alldone = len(d) == n
          check('whenall.ready-iff', ready == (bool(anyfail) or alldone))
          if ready:
            check('whenall.successful-iff-all-ok', succ == (not anyfail))
            if not anyfail: check('whenall.values-in-input-order', val == [x.val for x in ins])
            else:
              check('whenall.failure-is-an-input-failure', any(exc is x.exc for x in anyfail))
              if not alldone: cover('whenall-failure-before-all-done')
        else:
          firstok = next((x for x in d if x.ok), None)
          allfailed = len(d) == n and firstok is None
          check('whenany.ready-iff', ready == (firstok is not None or allfailed))
          if ready and firstok is not None:
            check('whenany.first-success-wins', succ is True and val == firstok.val)
            if any((not x.ok) and x.pre for x in d) : cover('whenany-precompleted-failure-then-success')
            if any((not x.ok) and x.done_seq > firstok.done_seq for x in d): cover('whenany-late-failure-after-success')
          elif ready:
            check('whenany.all-failed-last-failure', succ is False and exc is d[-1].exc)
    elif op == 'unwrap':
      # chain: level 0 holds level 1 holds ... holds plain value; each level succeeds or fails
      levels = []
      for i in range(n):
        L = Inp(); L.ar = AsyncResult(); L.ok = bool(choose('ok%d' % i, 2)); L.pre = bool(choose('pre%d' % i, 2))
        L.delay = None if L.pre else fresh_real('delay%d' % i, 0, 5, lo_strict=True); L.exc = Exception('u%d' % i)
        levels.append(L)
      def fire(i):
        L = levels[i]
        if L.ok: L.ar.set(levels[i + 1].ar if i + 1 < n else 'plain')
        else: L.ar.set_exception(L.exc)
      for i, L in enumerate(levels):
        if L.pre: fire(i)
      out = levels[0].ar.Unwrap()
      for i, L in enumerate(levels):
        if not L.pre: gevent.spawn_later(L.delay, fire, i)
      gevent.sleep(8)
      firstfail = next((L for L in levels if not L.ok), None)
      check('unwrap.ready', out.ready())
      if out.ready():
        if firstfail is None: check('unwrap.innermost-value', out.successful() and out.value == 'plain')
        else:
          check('unwrap.first-failure', (not out.successful()) and out.exception is firstfail.exc)
          if firstfail is not levels[0]: cover('unwrap-inner-failure')
    elif op == 'continue':
      src = AsyncResult(); ok = bool(choose('ok', 2)); pre = bool(choose('pre', 2)); raises = choose('raises', 3)
      on_hub = bool(choose('on_hub', 2))
      calls = []
      boom = Exception('boom') if raises != 2 else gevent.Timeout(1)      # a time-out raised inside the continuation
      e0 = Exception('src')
      def fire():
        if ok: src.set(5)
        else: src.set_exception(e0)
      def cont(ar):
        calls.append((ar, ar.ready()))
        if raises: raise boom
        return 'r'
      if pre: fire()
      cw = src.ContinueWith(cont, on_hub=on_hub)
      check('continue.not-before-completion', pre or not calls)
      if not pre: gevent.spawn_later(fresh_real('delay', 0, 3, lo_strict=True), fire)
      gevent.sleep(5)
      check('continue.exactly-once', len(calls) == 1 and calls[0][0] is src and calls[0][1])
      check('continue.captures', cw.ready() and ((cw.exception is boom) if raises else (cw.successful() and cw.value == 'r')))
      if raises: cover('continuation-raises')
    elif op == 'map':
      src = AsyncResult(); ok = bool(choose('ok', 2)); pre = bool(choose('pre', 2)); inner_async = bool(choose('inner_async', 2))
      fn_raises = bool(choose('fn_raises', 2))
      calls = []; e0 = Exception('src'); boom = Exception('fn')
      def fn(v):
        calls.append(v)
        if fn_raises: raise boom
        if inner_async:
          a = AsyncResult(); gevent.spawn_later(1, a.set, v * 2); return a
        return v * 2
      def fire():
        if ok: src.set(21)
        else: src.set_exception(e0)
      if pre: fire()
      # the mapping function runs as a ContinueWith continuation: what it raises is captured in the returned result and
      # never escapes from Map() itself, whether or not the source was complete at call time
      try: m = src.Map(fn)
      except Exception as ex:
        check('map.function-error-captured-not-raised', False); m = None
      if not pre: gevent.spawn_later(fresh_real('delay', 0, 3, lo_strict=True), fire)
      gevent.sleep(6)
      if m is None: pass
      elif ok and fn_raises:
        cover('map-function-raises')
        check('map.function-error-captured', calls == [21] and m.ready() and m.exception is boom)
      elif ok:
        check('map.applied', calls == [21] and m.ready() and m.successful() and m.value == 42)
      else:
        cover('map-skipped-on-failure')
        check('map.only-for-success', calls == [] and m.ready() and m.exception is e0)
    check('no-greenlet-error', not vtime.ERRORS)
  return body
