"""C15 — Kafka produce requests and responses are well-formed for every input.
Symbolic serialization through the real KafkaProtocol / KafkaTransportSink / binary.* code,
checked against the harness's own Kafka v0 parser/encoder written from the protocol guide."""
import logging
logging.disable(logging.CRITICAL)
import z3
from symex.values import (SymInt, check, cover, assume, sand, sor, snot, implies, fresh_int, is_concrete, hdecide, choose)
from symex import symbytes, stubs
from symex.symbytes import SymBytes, SymBytesIO, SymStruct
import scales.binary as bin_mod
import scales.kafka.protocol as kp_mod
import scales.kafka.sink as ks_mod
import scales.mux.sink as mux_mod
from scales.kafka.protocol import KafkaProtocol, MessageType, ProduceResponse
from scales.kafka.sink import KafkaTransportSink, KafkaEndpoint
from scales.constants import ChannelState, TransportHeaders, MessageProperties
from scales.message import MethodCallMessage, MethodReturnMessage
from .fakes import new_call
from .c11 import Sock
from .c13 import Rd
import struct as _struct

PROPERTY = 'C15'
INFO = dict(
  explanation='The real KafkaProtocol._SerializeProduceRequest/_GetMessageHeader/SerializeMessage, KafkaTransportSink._BuildHeader/'
              'AsyncProcessRequest/_ProcessReply, KafkaProtocol._DeserializeProduceResponse/_DeserializeMetadataResponse/DeserializeMessage and '
              'scales.binary.BinaryReader/BinaryWriter run on symbolic topic bytes, partition id, acks, correlation id (tag), payload bytes and '
              "response field values. The harness's own Kafka v0 parser checks the request: size prefix = bytes following; api key, version 0, "
              'correlation id = tag, client id; acks, timeout, one topic, one partition, message-set size = sum of messages present; per message '
              'offset 0, size = 4+10+|p|, CRC field = CRC32(magic,attr,key=-1,value) (uninterpreted CRC with the chaining law), magic 0, attr 0, '
              "null key, value = payload. The harness's own encoder builds produce/metadata responses from symbolic values and the real decoders "
              'must return exactly those; a reply frame is delivered to the request registered under its correlation id only.',
  bounds={'quick': 'one well-formed response frame read by the real receive loop in TCP segments of symbolic sizes (first 4 reads, <= 4 bytes each); topic <=2 bytes; <=2 payloads of <=3 symbolic bytes; responses: <=1 topic x <=2 partitions; metadata <=2 brokers, 1 topic, <=2 partitions, <=2 replicas/isr; all integers over their full wire range; 2 different Put requests serialized at symbolic instants while the transport is still opening',
          'thorough': 'topic <=4 bytes; <=3 payloads of <=4 bytes; responses <=2 topics x <=2 partitions'},
  outside=['larger payload lists / longer payloads (sizes are computed by the same code paths; not claimed)', 'real CRC32 arithmetic (uninterpreted function + chaining law, checked concretely against zlib on every replay)',
           'the router sink above the transport (metadata refresh, leader selection)'],
  stubs=['struct.pack/unpack/Struct/calcsize in scales.binary, scales.kafka.protocol, scales.kafka.sink, scales.mux.sink -> symbolic model with range errors (3.4)',
         'BytesIO -> SymBytesIO (3.5)', 'zlib.crc32 -> uninterpreted term with the chaining law (3.7)', 'socket recorder; frames read from the send queue'],
  assumptions=['topic and payloads are byte strings (the wire type)'],
)
EXPECT_COVERS = ['response-in-three-or-more-segments', 'puts-serialized-while-transport-opening', 'produce-empty-list', 'produce-empty-payload', 'produce-two-payloads', 'acks-out-of-range', 'metadata-two-brokers', 'reply-routed']


def install_models():
  for m in (bin_mod, kp_mod, ks_mod, mux_mod):
    symbytes.install(m)
    if hasattr(m, 'BytesIO'): m.BytesIO = SymBytesIO
  bin_mod.Structs.Byte = SymStruct('!B'); bin_mod.Structs.Int16 = SymStruct('!h')
  bin_mod.Structs.Int32 = SymStruct('!i'); bin_mod.Structs.Int64 = SymStruct('!q')
  KafkaProtocol.MSG_STRUCT = SymStruct('!BBii'); KafkaProtocol.MSG_HEADER = SymStruct('!qiI'); KafkaProtocol.PRODUCE_HEADER = SymStruct('!hii')
  kp_mod.zlib = stubs.SymZlib()


def fresh_bytes(name, n):
  return SymBytes([fresh_int('%s_%d' % (name, i), 0, 255) for i in range(n)]).concrete()


def jobs(tier):
  mt, mp, mq = (2, 2, 3) if tier == 'quick' else (4, 3, 4)
  js = []
  import itertools
  for tl in range(mt + 1):
    for np_ in range(mp + 1):
      for lens in itertools.product(range(mq + 1), repeat=np_):
        if tl != 1 and np_ == mp and sum(lens) not in (0, mq * np_): continue    # thin out: full product only for 1-byte topics
        js.append(dict(name='produce-t%d-p%s' % (tl, ''.join(map(str, lens)) or 'none'), op='produce', tl=tl, lens=list(lens), cost=1 + sum(lens)))
  js.append(dict(name='header', op='header', cost=1))
  js.append(dict(name='response-read-in-chunks', op='recvloop', cost=200, shards=8, shard_depth=4))
  for nt in range(0, (1 if tier == 'quick' else 2) + 1):
    for npart in range(0, 3):
      if nt == 0 and npart: continue
      js.append(dict(name='produce-resp-t%d-p%d' % (nt, npart), op='presp', nt=nt, npart=npart, cost=2))
  for nb in range(0, 3):
    for npart in range(0, 3):
      for nr in range(0, 3):
        if npart == 0 and nr: continue
        js.append(dict(name='metadata-b%d-p%d-r%d' % (nb, npart, nr), op='mresp', nb=nb, npart=npart, nr=nr, cost=3))
  js.append(dict(name='routing', op='routing', cost=2))
  js.append(dict(name='concurrent-during-open', op='duringopen', cost=50))
  return js


def make_body(job):
  op = job['op']
  def body():
    install_models()
    proto = KafkaProtocol()
    if op == 'produce':
      topic = fresh_bytes('topic', job['tl'])
      payloads = [fresh_bytes('p%d' % i, n) for i, n in enumerate(job['lens'])]
      acks = fresh_int('acks', -40000, 40000)
      part = fresh_int('partition', -2 ** 31, 2 ** 31 - 1)
      tag = fresh_int('tag', 0, 2 ** 24 - 2)
      msg = MethodCallMessage(None, 'Put', (topic, payloads, acks), {})
      msg.properties[MessageProperties.Endpoint] = KafkaEndpoint('h', 9092, part)
      buf = SymBytesIO(); headers = {}
      in_range = bool(sand(acks >= -32768, acks <= 32767))
      try:
        mt = proto.SerializeMessage(msg, buf, headers)
      except _struct.error:
        cover('acks-out-of-range')
        check('produce.error-only-when-acks-unencodable', not in_range)
        return
      check('produce.no-silent-wrap', in_range)
      check('produce.msgtype', mt == MessageType.ProduceRequest and headers.get(TransportHeaders.MessageType) == 0)
      # frame it with the real transport header for correlation id `tag`
      sink = KafkaTransportSink(Sock(), 'svc')
      hdr = sink._BuildHeader(tag, headers[TransportHeaders.MessageType], buf.tell())
      frame = SymBytes.of(hdr) + SymBytes.of(buf.getvalue())
      r = Rd(frame)
      check('req.size-prefix', r.u(4, True) == len(frame) - 4)
      check('req.api-key', r.u(2, True) == 0)
      check('req.api-version', r.u(2, True) == 0)
      check('req.correlation-id', r.u(4, True) == tag)
      cl = r.u(2, True)
      check('req.client-id', cl == 6 and SymBytes.of(r.take(6)) == b'scales')
      check('req.acks', r.u(2, True) == acks)
      check('req.timeout', r.u(4, True) == 1000)
      check('req.one-topic', r.u(4, True) == 1)
      tl = r.u(2, True)
      check('req.topic', tl == len(topic) and SymBytes.of(r.take(len(topic))) == topic)
      check('req.one-partition', r.u(4, True) == 1)
      check('req.partition-id', r.u(4, True) == part)
      mss = r.u(4, True)
      check('req.message-set-size', mss == r.left())
      if not payloads: cover('produce-empty-list')
      if len(payloads) == 2: cover('produce-two-payloads')
      for i, p in enumerate(payloads):
        if len(p) == 0: cover('produce-empty-payload')
        check('msg%d.offset' % i, r.u(8, True) == 0)
        check('msg%d.size' % i, r.u(4, True) == 4 + 10 + len(p))
        crc = r.u(4, False)
        body_bytes = r.b[r.p:r.p + 10 + len(p)]
        check('msg%d.crc' % i, crc == stubs.SymZlib.crc32(body_bytes))
        check('msg%d.magic-attr' % i, r.u(1) == 0 and r.u(1) == 0)
        check('msg%d.null-key' % i, r.u(4, True) == -1)
        check('msg%d.value-len' % i, r.u(4, True) == len(p))
        check('msg%d.value' % i, SymBytes.of(r.take(len(p))) == p)
      check('req.no-trailing-bytes', r.left() == 0)
    elif op == 'header':
      sink = KafkaTransportSink(Sock(), 'svc')
      tag = fresh_int('tag', -2 ** 31, 2 ** 31 - 1)
      mt = fresh_int('api_key', -2 ** 15, 2 ** 15 - 1)
      n = fresh_int('data_len', 0, 2 ** 31 - 1 - 16)
      h = SymBytes.of(sink._BuildHeader(tag, mt, n)); r = Rd(h)
      check('header.size-prefix', r.u(4, True) == n + len(h) - 4)
      check('header.api-key', r.u(2, True) == mt)
      check('header.version', r.u(2, True) == 0)
      check('header.correlation-id', r.u(4, True) == tag)
      check('header.client-id', r.u(2, True) == 6 and SymBytes.of(r.take(6)) == b'scales' and r.left() == 0)
    elif op == 'presp':
      nt, npart = job['nt'], job['npart']
      corr = fresh_int('corr', -2 ** 31, 2 ** 31 - 1)
      enc = symbytes.sym_pack('!ii', corr, nt)
      want = []
      for t in range(nt):
        name = fresh_bytes('topic%d' % t, choose('tlen%d' % t, 3))
        enc = enc + symbytes.sym_pack('!h', len(name)) + name + symbytes.sym_pack('!i', npart)
        for p in range(npart):
          pid = fresh_int('pid%d_%d' % (t, p), -2 ** 31, 2 ** 31 - 1)
          err = fresh_int('err%d_%d' % (t, p), -2 ** 15, 2 ** 15 - 1)
          off = fresh_int('off%d_%d' % (t, p), -2 ** 63, 2 ** 63 - 1)
          enc = enc + symbytes.sym_pack('!ihq', pid, err, off)
          want.append((name, pid, err, off))
      out = proto.DeserializeMessage(SymBytesIO(enc), MessageType.ProduceRequest)
      check('presp.kind', isinstance(out, MethodReturnMessage) and out.error is None and len(out.return_value) == len(want))
      for got, w in zip(out.return_value, want):
        check('presp.topic', SymBytes.of(got.topic) == w[0])
        check('presp.partition', got.partition == w[1])
        check('presp.error', got.error == w[2])
        check('presp.offset', got.offset == w[3])
    elif op == 'mresp':
      nb, npart, nr = job['nb'], job['npart'], job['nr']
      enc = symbytes.sym_pack('!ii', 7, nb)
      brokers = []
      for b in range(nb):
        nid = fresh_int('node%d' % b, -2 ** 31, 2 ** 31 - 1)
        host = fresh_bytes('host%d' % b, 1 + b)
        port = fresh_int('port%d' % b, -2 ** 31, 2 ** 31 - 1)
        enc = enc + symbytes.sym_pack('!ih', nid, len(host)) + host + symbytes.sym_pack('!i', port)
        brokers.append((nid, host, port))
      if nb == 2:
        cover('metadata-two-brokers')
        assume(snot(brokers[0][0] == brokers[1][0]))     # distinct node ids (a broker list is keyed by node id)
      tname = fresh_bytes('tname', 1)
      enc = enc + symbytes.sym_pack('!ihh', 1, fresh_int('terr', -2 ** 15, 2 ** 15 - 1), len(tname)) + tname + symbytes.sym_pack('!i', npart)
      parts = []
      for p in range(npart):
        perr = fresh_int('perr%d' % p, -2 ** 15, 2 ** 15 - 1)
        pid = fresh_int('pid%d' % p, -2 ** 31, 2 ** 31 - 1)
        leader = fresh_int('leader%d' % p, -2 ** 31, 2 ** 31 - 1)
        reps = [fresh_int('rep%d_%d' % (p, i), -2 ** 31, 2 ** 31 - 1) for i in range(nr)]
        isr = [fresh_int('isr%d_%d' % (p, i), -2 ** 31, 2 ** 31 - 1) for i in range(max(0, nr - 1))]
        enc = enc + symbytes.sym_pack('!hii', perr, pid, leader) + symbytes.sym_pack('!i', len(reps))
        for x in reps: enc = enc + symbytes.sym_pack('!i', x)
        enc = enc + symbytes.sym_pack('!i', len(isr))
        for x in isr: enc = enc + symbytes.sym_pack('!i', x)
        parts.append((pid, leader, reps, isr))
      if npart == 2: assume(snot(parts[0][0] == parts[1][0]))
      wrap = (lambda v: v) if is_concrete() else (lambda v: v if isinstance(v, SymInt) else SymInt(v))
      out = proto.DeserializeMessage(SymBytesIO(enc), MessageType.MetadataRequest)
      check('mresp.kind', isinstance(out, MethodReturnMessage) and out.error is None)
      md = out.return_value
      check('mresp.broker-count', len(md.brokers) == nb)
      for nid, host, port in brokers:
        b = md.brokers.get(wrap(nid))
        check('mresp.broker-present', b is not None)
        if b is not None:
          check('mresp.broker', sand(b.nodeId == nid, SymBytes.of(b.host) == host, b.port == port))
      check('mresp.topic', len(md.topics) == 1)
      tkey = list(md.topics.keys())[0]
      check('mresp.topic-name', SymBytes.of(tkey) == tname)
      pd = md.topics[tkey]
      check('mresp.partition-count', len(pd) == npart)
      for pid, leader, reps, isr in parts:
        pm = pd.get(wrap(pid))
        check('mresp.partition-present', pm is not None)
        if pm is not None:
          check('mresp.partition', sand(pm.partition_id == pid, pm.leader == leader, len(pm.replicas) == len(reps), len(pm.isr) == len(isr)))
          for a, b in zip(pm.replicas, reps): check('mresp.replica', a == b)
          for a, b in zip(pm.isr, isr): check('mresp.isr', a == b)
    elif op == 'duringopen':
      # two different Put requests pass the real KafkaSerializerSink while the KafkaTransportSink underneath is still
      # opening: the frame carrying each request's correlation id must contain that request's topic and payloads
      import gevent, io, struct as _st
      from symex import net as netm, vtime
      from symex.values import fresh_real
      from . import stacks
      from .fakes import Ep, OneProvider
      e = stacks.setup()
      for m in (bin_mod, kp_mod, ks_mod, mux_mod):
        for n_ in ('pack', 'unpack', 'calcsize', 'Struct'):
          if hasattr(m, n_): setattr(m, n_, getattr(_st, n_))
        if hasattr(m, 'BytesIO'): m.BytesIO = io.BytesIO
      bin_mod.Structs.Byte = _st.Struct('!B'); bin_mod.Structs.Int16 = _st.Struct('!h'); bin_mod.Structs.Int32 = _st.Struct('!i'); bin_mod.Structs.Int64 = _st.Struct('!q')
      KafkaProtocol.MSG_STRUCT = _st.Struct('!BBii'); KafkaProtocol.MSG_HEADER = _st.Struct('!qiI'); KafkaProtocol.PRODUCE_HEADER = _st.Struct('!hii')
      import zlib; kp_mod.zlib = zlib
      L = fresh_real('open_latency', 0, 3, lo_strict=True)
      frames = []
      class RawPeer(netm.FramedPeer):
        def on_frame(self, frame): frames.append(frame)
      script = netm.Script()
      e.net.endpoint('a', 1, peer=lambda s: RawPeer(s, script), connect_delay=L)
      transport = KafkaTransportSink.Builder().CreateSink({'endpoint': Ep('a', 1), 'label': 'svc'})
      ser = ks_mod.KafkaSerializerSink(OneProvider(transport), None, {'label': 'svc'})
      transport.Open()
      sent = []
      def issue(i):
        st, term, _ = new_call()
        msg = MethodCallMessage(None, 'Put', (b'topic-%d' % i, [b'payload-%d' % i], 1), {})
        msg.properties[MessageProperties.Endpoint] = KafkaEndpoint('a', 1, i)
        sent.append((i, msg))
        ser.AsyncProcessRequest(st, msg, None, {})
      for i in range(2):
        at = fresh_real('request_at%d' % i, 0, 3)
        gevent.spawn_later(at, issue, i)
      gevent.sleep(8)
      cover('puts-serialized-while-transport-opening')
      check('duringopen.both-frames-sent', len(frames) == 2)
      for i, msg in sent:
        tag = msg.properties.get(mux_mod.Tag.KEY)
        mine = [f for f in frames if int.from_bytes(f[4:8], 'big') == tag]
        check('duringopen.one-frame-per-correlation-id', len(mine) == 1)
        if len(mine) == 1:
          check('duringopen.frame-carries-own-topic-and-payload', (b'topic-%d' % i) in mine[0] and (b'payload-%d' % i) in mine[0])
      check('no-greenlet-error', not vtime.ERRORS)
      transport.Close()
    elif op == 'recvloop':
      # a broker's (well-formed) response frame arrives in TCP segments of symbolic sizes: the real receive loop of the
      # transport (VarzSocketWrapper.readAll over the socket handle) must hand exactly the frame's bytes to the request
      # that carries its correlation id, whatever the segmentation
      import gevent, gevent.event, io
      from symex import vtime
      from scales.scales_socket import ScalesSocket
      from scales.varz import VarzSocketWrapper
      from .c14 import ChunkHandle
      vtime.setup()
      mux_mod.BytesIO = io.BytesIO; mux_mod.unpack = _struct.unpack; ks_mod.unpack = _struct.unpack
      body = _struct.pack('!i', 7) + _struct.pack('!ih', 1, 2) + b'tp' + _struct.pack('!iihq', 1, 0, 0, 42)
      data = _struct.pack('!i', len(body)) + body
      class Handle(ChunkHandle):
        def _n(self, want):
          if self.pos >= len(self.data): gevent.event.Event().wait()      # nothing more arrives: the read blocks
          if len(self.sizes) >= 4:                  # only the first reads are segmented symbolically (at most 4 bytes each)
            n = min(want, len(self.data) - self.pos); self.sizes.append(n); return n
          return ChunkHandle._n(self, min(want, 4))
      hd = Handle(data)
      raw = ScalesSocket('h', 1); raw.handle = hd
      sock = VarzSocketWrapper(raw, 'svc'); sock._is_open = True
      sink = KafkaTransportSink(sock, 'svc'); sink._Init(); sink._state = ChannelState.Open
      st, term, msg = new_call()
      streams = []
      orig_apr = term.AsyncProcessResponse
      def apr(sink_stack, context, stream, m):
        streams.append(stream); return orig_apr(sink_stack, context, stream, m)
      term.AsyncProcessResponse = apr
      msg.properties[mux_mod.Tag.KEY] = 7
      sink._tag_map[7] = (st, 0, msg.properties)
      g = gevent.spawn(sink._RecvLoop)
      for _ in range(12): gevent.sleep(0)
      if len(hd.sizes) >= 3: cover('response-in-three-or-more-segments')
      check('recvloop.response-delivered-once', len(term.got) == 1)
      if len(streams) == 1 and streams[0] is not None:
        streams[0].seek(0)
        got = bytes(streams[0].read())
        check('recvloop.exact-frame-bytes', got == body)
      else:
        check('recvloop.exact-frame-bytes', False)
      g.kill(block=False)

    elif op == 'routing':
      sink = KafkaTransportSink(Sock(), 'svc'); sink._Init(); sink._state = ChannelState.Open
      t0 = fresh_int('t0', 2, 2 ** 24 - 2); t1 = fresh_int('t1', 2, 2 ** 24 - 2)
      assume(snot(t0 == t1))
      wrap = (lambda v: v) if is_concrete() else (lambda v: v if isinstance(v, SymInt) else SymInt(v))
      calls = []
      for t in (t0, t1):
        st, term, msg = new_call()
        msg.properties[mux_mod.Tag.KEY] = wrap(t)
        sink._tag_map[wrap(t)] = (st, 0, msg.properties)
        calls.append(term)
      which = choose('which', 2)
      frame = symbytes.sym_pack('!i', (t0, t1)[which]) + b'\x00\x00\x00\x00'
      sink._ProcessReply(SymBytesIO(frame))
      cover('reply-routed')
      check('routing.own-request-only', len(calls[which].got) == 1 and len(calls[1 - which].got) == 0)
  return body
