"""A Thrift interface written in the style of thrift-generated code (pure-Python read/write paths),
used by the C14 harness: string->string, void, declared exception, oneway.

  service Svc {
    string echo(1: string s),
    void ping(),
    string risky(1: string s) throws (1: MyError err),
    oneway void note(1: string s)
  }
"""
from thrift.Thrift import TType, TMessageType, TException, TApplicationException


class _Struct(object):
  FIELDS = ()      # (fid, name, ttype, struct_class_or_None)
  NAME = 'struct'
  def __init__(self, *args, **kw):
    for (fid, name, tt, cls) in self.FIELDS: setattr(self, name, None)
    for (f, v) in zip(self.FIELDS, args): setattr(self, f[1], v)
    for k, v in kw.items(): setattr(self, k, v)
  def read(self, iprot):
    iprot.readStructBegin()
    while True:
      (fname, ftype, fid) = iprot.readFieldBegin()
      if ftype == TType.STOP: break
      hit = [f for f in self.FIELDS if f[0] == fid and f[2] == ftype]
      if hit:
        f = hit[0]
        if ftype == TType.STRING: setattr(self, f[1], iprot.readString())
        elif ftype == TType.I32: setattr(self, f[1], iprot.readI32())
        elif ftype == TType.STRUCT:
          o = f[3](); o.read(iprot); setattr(self, f[1], o)
        else: iprot.skip(ftype)
      else:
        iprot.skip(ftype)
      iprot.readFieldEnd()
    iprot.readStructEnd()
  def write(self, oprot):
    oprot.writeStructBegin(self.NAME)
    for (fid, name, tt, cls) in self.FIELDS:
      v = getattr(self, name)
      if v is None: continue
      oprot.writeFieldBegin(name, tt, fid)
      if tt == TType.STRING: oprot.writeString(v)
      elif tt == TType.I32: oprot.writeI32(v)
      elif tt == TType.STRUCT: v.write(oprot)
      oprot.writeFieldEnd()
    oprot.writeFieldStop()
    oprot.writeStructEnd()
  def __eq__(self, other): return isinstance(other, self.__class__) and self.__dict__ == other.__dict__
  def __ne__(self, other): return not (self == other)


def _spec(fields):
  if not fields: return ()
  top = max(f[0] for f in fields)
  out = [None] * (top + 1)
  for (fid, name, tt, cls) in fields:
    out[fid] = (fid, tt, name, 'UTF8' if tt == TType.STRING else ([cls, None] if tt == TType.STRUCT else None), None)
  return tuple(out)


class MyError(TException, _Struct):
  FIELDS = ((1, 'message', TType.STRING, None),); NAME = 'MyError'
  def __init__(self, message=None):
    TException.__init__(self, message); self.message = message
  def __hash__(self): return id(self)
MyError.thrift_spec = _spec(MyError.FIELDS)


class echo_args(_Struct): FIELDS = ((1, 's', TType.STRING, None),); NAME = 'echo_args'
class echo_result(_Struct): FIELDS = ((0, 'success', TType.STRING, None),); NAME = 'echo_result'
class ping_args(_Struct): FIELDS = (); NAME = 'ping_args'
class ping_result(_Struct): FIELDS = (); NAME = 'ping_result'
class risky_args(_Struct): FIELDS = ((1, 's', TType.STRING, None),); NAME = 'risky_args'
class risky_result(_Struct): FIELDS = ((0, 'success', TType.STRING, None), (1, 'err', TType.STRUCT, MyError)); NAME = 'risky_result'
class note_args(_Struct): FIELDS = ((1, 's', TType.STRING, None),); NAME = 'note_args'
for _c in (echo_args, echo_result, ping_args, ping_result, risky_args, risky_result, note_args):
  _c.thrift_spec = _spec(_c.FIELDS)


class Iface(object):
  def echo(self, s): pass
  def ping(self): pass
  def risky(self, s): pass
  def note(self, s): pass


class Processor(Iface):
  """server side, as thrift generates it"""
  def __init__(self, handler):
    self._handler = handler
    self.calls = []
  def process(self, iprot, oprot):
    (name, mtype, seqid) = iprot.readMessageBegin()
    self.calls.append((name, mtype, seqid))
    args_cls = {'echo': echo_args, 'ping': ping_args, 'risky': risky_args, 'note': note_args}.get(name)
    if args_cls is None:
      iprot.skip(TType.STRUCT); iprot.readMessageEnd()
      x = TApplicationException(TApplicationException.UNKNOWN_METHOD, 'Unknown function %s' % name)
      oprot.writeMessageBegin(name, TMessageType.EXCEPTION, seqid); x.write(oprot); oprot.writeMessageEnd()
      return False
    args = args_cls(); args.read(iprot); iprot.readMessageEnd()
    if name == 'note':
      self._handler.note(args.s); return True
    result = {'echo': echo_result, 'ping': ping_result, 'risky': risky_result}[name]()
    msg_type = TMessageType.REPLY
    try:
      if name == 'echo': result.success = self._handler.echo(args.s)
      elif name == 'ping': self._handler.ping()
      else:
        try: result.success = self._handler.risky(args.s)
        except MyError as err: result.err = err
    except TApplicationException as ex:
      msg_type = TMessageType.EXCEPTION; result = ex
    oprot.writeMessageBegin(name, msg_type, seqid); result.write(oprot); oprot.writeMessageEnd()
    return True
