"""Throwaway: symbolic UTF-8 strings + struct model through the real thriftmux _WriteContext / _BuildHeader / ReadHeader."""
import sys, time, logging, re
import z3
import probe_engine as pe
from probe_engine import SymInt, SymBool
_lift0 = pe.lift
def lift(x):
  return x if z3.is_expr(x) else _lift0(x)
pe.lift = lift
logging.disable(logging.CRITICAL)
SymInt.__floordiv__ = lambda s, o: SymInt(s.e / lift(o))          # z3 Int '/' is floor div for positive divisors
SymInt.__mod__ = lambda s, o: SymInt(s.e % lift(o))
def _rshift(s, k): return SymInt(s.e / (2 ** k))
def _lshift(s, k): return SymInt(s.e * (2 ** k))
def _and(s, m):
  assert isinstance(m, int) and (m + 1) & m == 0, m   # mask 2^k-1
  return SymInt(s.e % (m + 1))
SymInt.__rshift__ = _rshift; SymInt.__lshift__ = _lshift; SymInt.__and__ = _and
SymInt.__mul__ = lambda s, o: SymInt(s.e * lift(o)); SymInt.__rmul__ = SymInt.__mul__
SymInt.__neg__ = lambda s: SymInt(-s.e)

class SymBytes(object):
  def __init__(self, bs): self.bs = list(bs)           # list of z3 Int terms / ints
  def __len__(self): return len(self.bs)
  def __add__(self, o): return SymBytes(self.bs + (o.bs if isinstance(o, SymBytes) else list(o)))
  def __radd__(self, o): return SymBytes(list(o) + self.bs)
  def __getitem__(self, i): return SymBytes(self.bs[i]) if isinstance(i, slice) else self.bs[i]

class SymStr(str):
  def __new__(cls, cps): o = str.__new__(cls, '?' * len(cps)); o.cps = cps; return o
  def __len__(self): return len(self.cps)
  def encode(self, enc='utf-8'):
    out = []
    for cp in self.cps:
      if pe.ENG.decide(cp < 0x80): out += [cp]
      elif pe.ENG.decide(cp < 0x800): out += [0xC0 + cp / 64, 0x80 + cp % 64]
      elif pe.ENG.decide(cp < 0x10000): out += [0xE0 + cp / 4096, 0x80 + (cp / 64) % 64, 0x80 + cp % 64]
      else: out += [0xF0 + cp / 262144, 0x80 + (cp / 4096) % 64, 0x80 + (cp / 64) % 64, 0x80 + cp % 64]
    return SymBytes(out)

SIZES = {'b': (1, True), 'B': (1, False), 'h': (2, True), 'H': (2, False), 'i': (4, True), 'I': (4, False), 'q': (8, True), 'Q': (8, False)}
class StructError(Exception): pass
def sym_pack(fmt, *args):
  assert fmt[0] == '!'; out = []; args = list(args)
  for cnt, code in re.findall(r'(\d*)([bBhHiIqQs])', fmt[1:]):
    if code == 's':
      n = int(cnt or 1); v = args.pop(0)
      if isinstance(v, str): raise StructError("argument for 's' must be a bytes object")
      bs = (v.bs if isinstance(v, SymBytes) else list(v))[:n]; out += bs + [0] * (n - len(bs)); continue
    for _ in range(int(cnt or 1)):
      size, signed = SIZES[code]; v = lift(args.pop(0))
      lo, hi = (-(1 << (8*size-1)), (1 << (8*size-1)) - 1) if signed else (0, (1 << (8*size)) - 1)
      if not pe.ENG.decide(z3.And(v >= lo, v <= hi)): raise StructError('out of range')
      u = z3.If(v < 0, v + (1 << (8*size)), v)
      out += [z3.simplify((u / (1 << (8*(size-1-k)))) % 256) for k in range(size)]
  return SymBytes(out)
def sym_unpack(fmt, data):
  assert fmt[0] == '!'; res = []; bs = data.bs if isinstance(data, SymBytes) else list(data); p = 0
  for cnt, code in re.findall(r'(\d*)([bBhHiIqQ])', fmt[1:]):
    for _ in range(int(cnt or 1)):
      size, signed = SIZES[code]; u = z3.IntVal(0)
      for k in range(size): u = u * 256 + lift(bs[p]); p += 1
      v = z3.If(u >= (1 << (8*size-1)), u - (1 << (8*size)), u) if signed else u
      res.append(SymInt(z3.simplify(v)))
  return tuple(res)
class SymBytesIO(object):
  def __init__(self, init=None): self.data = list(init.bs) if init is not None else []; self.pos = 0
  def write(self, b): self.data += (b.bs if isinstance(b, SymBytes) else list(b)); self.pos = len(self.data)
  def read(self, n=None):
    n = len(self.data) - self.pos if n is None else n
    r = SymBytes(self.data[self.pos:self.pos+n]); self.pos += n; return r
  def getvalue(self): return SymBytes(self.data)
  def tell(self): return self.pos

import scales.thriftmux.serializer as ser, scales.thriftmux.sink as snk
ser.pack = sym_pack; ser.unpack = sym_unpack; snk.pack = sym_pack; snk.unpack = sym_unpack

def cp(name):
  c = z3.Int(name); pe.ENG.solver.add(z3.Or(z3.And(c >= 0, c <= 0xD7FF), z3.And(c >= 0xE000, c <= 0x10FFFF))); return c

def ctx_body(nk, nv):
  def body():
    k = SymStr([cp('k%d' % i) for i in range(nk)]); v = SymStr([cp('v%d' % i) for i in range(nv)])
    buf = SymBytesIO()
    ser.MessageSerializer._WriteContext({k: v}, buf)
    data = buf.getvalue().bs
    # independent decoder: count(2) klen(2) k vlen(2) v  and nothing else
    out = []
    def be16(i): return lift(data[i]) * 256 + lift(data[i+1])
    kb = k.encode().bs; vb = v.encode().bs
    out.append(('count', be16(0) == 1))
    out.append(('klen', be16(2) == len(kb)))
    want = [0, 1] + [len(kb) // 256, len(kb) % 256] + kb + [len(vb) // 256, len(vb) % 256] + vb
    out.append(('total-length', z3.BoolVal(len(data) == len(want))))
    if len(data) == len(want):
      out.append(('bytes', z3.And([lift(a) == lift(b) for a, b in zip(data, want)])))
    return out
  return body

def hdr_body():
  tag = z3.Int('tag'); mt = z3.Int('mt'); dl = z3.Int('dl'); S = pe.ENG.solver
  S.add(tag >= 0, tag < 2**24, mt >= -128, mt <= 127, dl >= 0, dl < 2**31 - 4)
  h = snk.SocketTransportSink._BuildHeader(snk.SocketTransportSink, SymInt(tag), SymInt(mt), SymInt(dl))
  t2, g2 = snk.ThriftMuxMessageSerializerSink.ReadHeader(SymBytesIO(h[4:]))
  ln, = sym_unpack('!i', h[:4])
  return [('len', lift(ln) == 4 + dl), ('tag', lift(g2) == tag), ('type-neg', z3.Implies(mt < 0, lift(t2) == mt)), ('type-all', lift(t2) == mt)]

for nk, nv in ((0, 0), (1, 0), (1, 1), (2, 1)):
  t = time.time(); p, q, f = pe.explore(ctx_body(nk, nv))
  print('ctx |k|=%d |v|=%d paths=%d queries=%d %.2fs' % (nk, nv, p, q, time.time()-t), [(n, {str(d): m[d] for d in m.decls()}) for n, m, _ in f][:1])
t = time.time(); p, q, f = pe.explore(hdr_body)
print('hdr paths=%d queries=%d %.2fs' % (p, q, time.time()-t), [(n, {str(d): m[d] for d in m.decls()}) for n, m, _ in f][:2])
