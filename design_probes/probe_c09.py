import sys, logging
sys.argv = ['x']
logging.disable(logging.CRITICAL)
exec(open('probe_stack.py').read().split("from scales.thrift import Thrift")[0])
from scales.thrift import Thrift
from scales.thriftmux import ThriftMux
UNREACH_UNTIL = 20.0
T0 = time.time()
_orig_connect = FakeGSocket.connect
ATT = []
def connect(self, addr):
  gevent.sleep(0.1)
  ATT.append(round(time.time()-T0, 2))
  if time.time() - T0 < UNREACH_UNTIL:
    raise OSError('refused')
FakeGSocket.connect = connect
for name, B, mux in (('thrift', Thrift, False), ('mux', ThriftMux, True)):
  del ATT[:]
  FakeGSocket.mux = mux
  T0 = time.time()
  c = B.NewBuilder(Hello.Iface).SetUri('tcp://a:1').SetTimeout(2).SetOpenTimeout(0).Build()
  res = []
  for i in range(14):
    gevent.sleep(10)
    try: r = c.hi('p%d' % i)
    except Exception as e: r = type(e).__name__ + ':' + type(getattr(e, 'inner_exception', None)).__name__
    res.append((round(time.time()-T0,1), r))
  print(name, 'attempts', ATT)
  print(name, res)
  c.DispatcherClose()
