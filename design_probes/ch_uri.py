from typing import List, Tuple
from scales.core import ScalesUriParser

def tcp_roundtrip(h1: str, p1: int, h2: str, p2: int) -> bool:
  """
  pre: 1 <= len(h1) <= 2 and 1 <= len(h2) <= 2
  pre: all(c in 'ab.-' for c in h1) and all(c in 'ab.-' for c in h2)
  pre: 0 <= p1 <= 65535 and 0 <= p2 <= 65535
  post: _
  """
  uri = 'tcp://%s:%d,%s:%d' % (h1, p1, h2, p2)
  prov = ScalesUriParser().Parse(uri)
  got = [(s.service_endpoint.host, s.service_endpoint.port) for s in prov.GetServers()]
  return got == [(h1, p1), (h2, p2)]

def bad_scheme(s: str) -> bool:
  """
  pre: 1 <= len(s) <= 3
  pre: all(c in 'tczkph' for c in s)
  pre: s not in ('tcp', 'zk')
  post: _
  """
  try:
    ScalesUriParser().Parse(s + '://a:1')
  except Exception:
    return True
  return False
