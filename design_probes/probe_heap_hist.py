import sys, random, logging
sys.path.insert(0, '/repo'); logging.disable(logging.CRITICAL)
import gevent
from scales.loadbalancer import HeapBalancerSink
from scales.constants import SinkProperties, MessageProperties
from scales.message import Message
from test.scales.util.mocks import MockSinkProvider, MockServerSetProvider, MockSinkStack, MockSink

def run(seed, N, steps, allow_remove=True):
  rnd = random.Random(seed)
  ssp = MockServerSetProvider()
  for p in range(N): ssp.AddServer('h', 8000 + p)
  props = HeapBalancerSink.Builder._defaults.copy(); props['server_set_provider'] = ssp
  sp = HeapBalancerSink.Builder.PARAMS_CLASS(**props)
  sink = HeapBalancerSink(MockSinkProvider(), sp, {SinkProperties.Label: 'm'})
  sink.Open().wait(); sink.WaitForOpenComplete()
  out = {}      # endpoint -> outstanding
  members = set(n.endpoint for n in sink._heap[1:])
  for ep in members: out[ep] = 0
  pending = []
  hist = []
  for _ in range(steps):
    r = rnd.random()
    if r < 0.5 or not pending:
      st = MockSinkStack(); term = MockSink({SinkProperties.Endpoint: None}); st.Push(term)
      msg = Message()
      sink.AsyncProcessRequest(st, msg, None, None)
      ep = msg.properties[MessageProperties.Endpoint]
      hist.append(('get', str(ep)))
      if not members: continue
      mn = min(out[e] for e in members)
      if out[ep] != mn:
        return hist, dict((str(k), v) for k, v in out.items() if k in members), str(ep)
      out[ep] += 1; pending.append((st, ep))
    elif r < 0.9 or not allow_remove or len(members) <= 2:
      i = rnd.randrange(len(pending)); st, ep = pending.pop(i)
      st.AsyncProcessResponse(None, object()); out[ep] -= 1
      hist.append(('put', str(ep)))
    else:
      ep = rnd.choice(sorted(members, key=str)); members.discard(ep)
      ssp.RemoveServer(ep.host, ep.port); hist.append(('remove', str(ep)))
  return None

for allow_remove in (True, False):
  best = None
  for N in (5, 6, 7, 8, 9, 10):
    for seed in range(3000):
      r = run(seed, N, 40, allow_remove)
      if r and (best is None or len(r[0]) < len(best[1][0])):
        best = ((N, seed), r)
    if best: break
  print('allow_remove', allow_remove, '->', best[0] if best else None)
  if best:
    print('  history', best[1][0]); print('  outstanding', best[1][1], 'chosen', best[1][2])
