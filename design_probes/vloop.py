"""Throwaway probe: a pure-Python virtual-time event loop for real gevent.
GEVENT_LOOP=vloop.VLoop"""
import heapq, itertools, sys, traceback

class _CB(object):
  __slots__ = ('callback', 'args')
  def __init__(self, cb, args): self.callback = cb; self.args = args
  def stop(self): self.callback = None; self.args = None
  close = stop
  @property
  def pending(self): return self.callback is not None
  def __bool__(self): return self.args is not None

class _Watcher(object):
  def __init__(self, loop, ref=True, priority=None):
    self.loop = loop; self.ref = ref; self.priority = priority
    self.callback = None; self.args = None; self._active = False
  def start(self, callback, *args, **kw):
    self.callback = callback; self.args = args; self._active = True; self._start(**kw)
  def _start(self, **kw): pass
  def stop(self):
    self._active = False; self.callback = None; self.args = None; self._stop()
  def _stop(self): pass
  def close(self): self.stop()
  @property
  def active(self): return self._active
  @property
  def pending(self): return False
  def __enter__(self): return self
  def __exit__(self, *a): self.close()

class _Timer(_Watcher):
  def __init__(self, loop, after, repeat=0.0, ref=True, priority=None):
    _Watcher.__init__(self, loop, ref, priority)
    self.after = after
  def _start(self, update=False, **kw):
    self.loop._add_timer(self)
  def _stop(self):
    self.loop._del_timer(self)
  def again(self, callback, *args, **kw):
    self.stop(); self.start(callback, *args)

class VLoop(object):
  default = True
  approx_timer_resolution = 0.0
  MAXPRI = 2; MINPRI = -2
  def __init__(self, flags=None, default=None):
    self._now = 1000.0
    self._callbacks = []
    self._timers = []   # list of (due, seq, timer)
    self._seq = itertools.count()
    self.error_handler = None
    self.env_events = []
  # -- time
  def now(self): return self._now
  def update_now(self): pass
  # -- callbacks
  def run_callback(self, func, *args):
    cb = _CB(func, args); self._callbacks.append(cb); return cb
  run_callback_threadsafe = run_callback
  # -- watchers
  def timer(self, after, repeat=0.0, ref=True, priority=None):
    return _Timer(self, after, repeat, ref, priority)
  def _add_timer(self, t):
    t._entry = (self._now + t.after, next(self._seq), t)
    self._timers.append(t._entry)
  def _del_timer(self, t):
    e = getattr(t, '_entry', None)
    if e is not None and e in self._timers: self._timers.remove(e)
    t._entry = None
  def async_(self, ref=True, priority=None): return _Watcher(self, ref, priority)
  def fork(self, ref=True, priority=None): return _Watcher(self, ref, priority)
  def prepare(self, ref=True, priority=None): return _Watcher(self, ref, priority)
  def check(self, ref=True, priority=None): return _Watcher(self, ref, priority)
  def idle(self, ref=True, priority=None): return _Watcher(self, ref, priority)
  def io(self, fd, events, ref=True, priority=None): raise NotImplementedError('no real I/O in virtual loop')
  def signal(self, *a, **k): return _Watcher(self)
  def closing_fd(self, fd): return False
  def destroy(self): pass
  def reinit(self): pass
  def _format(self): return 'vloop'
  def handle_error(self, context, t, v, tb):
    if self.error_handler is not None:
      self.error_handler.handle_error(context, t, v, tb)
    else:
      traceback.print_exception(t, v, tb)
  # -- run
  def _run_callbacks(self):
    while self._callbacks:
      cbs, self._callbacks = self._callbacks, []
      for cb in cbs:
        f, a = cb.callback, cb.args
        if f is None: continue
        cb.callback = None
        try:
          f(*a)
        except BaseException:
          self.handle_error(cb, *sys.exc_info())
        finally:
          cb.args = None
  def run(self, nowait=False, once=False):
    while True:
      self._run_callbacks()
      live = [e for e in self._timers if e[2].ref]
      if not live:
        return False
      e = min(self._timers, key=lambda e: (e[0], e[1]))
      self._timers.remove(e)
      due, _, t = e
      if due > self._now: self._now = due
      t._entry = None
      cb, args = t.callback, t.args
      t._active = False
      if cb is not None:
        try:
          cb(*args)
        except BaseException:
          self.handle_error(t, *sys.exc_info())
      if once: return True

def _reset(self, now):
  self._now = now; self._callbacks = []; self._timers = []
VLoop.reset = _reset
