import sys, logging, time
sys.path.insert(0, '/repo'); logging.disable(logging.CRITICAL)
import gevent
from struct import pack
from scales.thrift.sink import SocketTransportSink
from scales.constants import ChannelState
from scales.message import Deadline, Message
from scales.compat import BytesIO
from scales.sink import ClientMessageSinkStack, ClientMessageSink
from test.scales.util.mocks import MockSocket
opens = [0]
def open_cb():
  opens[0] += 1
  if opens[0] >= 2: raise OSError('refused on reconnect')
def read_cb(sz):
  gevent.sleep(10)       # peer silent
  return b''
sock = MockSocket('h', 1, open_cb, None, read_cb, lambda b: None)
sink = SocketTransportSink(sock, 'svc'); sink.Open().get()
faults = []; sink.on_faulted.Subscribe(lambda v: faults.append(v))
class Term(ClientMessageSink):
  got = []
  def AsyncProcessRequest(self, *a): pass
  def AsyncProcessResponse(self, st, ctx, stream, msg): Term.got.append(msg)
st = ClientMessageSinkStack(); st.Push(Term())
m = Message(); m.properties[Deadline.KEY] = time.time() + 0.05
sink.AsyncProcessRequest(st, m, BytesIO(b'req'), {})
gevent.sleep(0.3)
print('after timeout+failed reconnect: state', sink.state, '(Open=2, Closed=4)  _processing set:', sink._processing is not None,
      ' faults:', len(faults), ' messages to in-flight request:', [type(getattr(x, 'error', None)).__name__ for x in Term.got])
st2 = ClientMessageSinkStack(); st2.Push(Term()); Term.got = []
sink.AsyncProcessRequest(st2, Message(), BytesIO(b'req2'), {}); gevent.sleep(0.05)
print('next request ->', [type(getattr(x, 'error', None)).__name__ for x in Term.got])
