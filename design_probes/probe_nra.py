import z3, time
# one _AdjustAperture decision over reals: avg' = total'*(1-w) + v*w ; load = avg'/size ; spec vs code agree?
v, w, minl, maxl = z3.Reals('v w min_load max_load'); total, size, mins, maxs, idle = z3.Ints('total size min_size max_size idle')
s = z3.Solver(); s.set('timeout', 20000)
s.add(v >= 0, w > 0, w <= 1, minl > 0, maxl > minl, total >= 0, total <= 50, size >= 1, size <= 6, mins >= 1, maxs >= mins, idle >= 0)
avg = z3.ToReal(total) * (1 - w) + v * w
load = avg / z3.ToReal(size)
code_expand = z3.And(load >= maxl, idle > 0, size < maxs)
# property: ema stays between old value and sample
t = time.time(); s.push(); s.add(z3.Not(z3.And(avg >= z3.If(v < z3.ToReal(total), v, z3.ToReal(total)), avg <= z3.If(v > z3.ToReal(total), v, z3.ToReal(total))))); print('convexity', s.check(), '%.2fs' % (time.time()-t)); s.pop()
# a mutant decision (>= replaced by >) must be distinguishable
t = time.time(); s.push(); mut = z3.And(load > maxl, idle > 0, size < maxs); s.add(code_expand != mut); r = s.check(); print('mutant distinguishable', r, '%.2fs' % (time.time()-t)); 
if r == z3.sat: print('  ', s.model())
s.pop()
# equivalence of two formulations (division vs cross-multiplication) -> unsat expected
t = time.time(); s.push(); s.add((load >= maxl) != (avg >= maxl * z3.ToReal(size))); print('div-vs-mul', s.check(), '%.2fs' % (time.time()-t)); s.pop()
