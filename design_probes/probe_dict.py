import z3, probe_engine as pe
from probe_engine import SymInt, SymBool
SymInt.__hash__ = lambda self: 0
SymInt.__int__ = lambda self: 0
import logging; logging.disable(logging.CRITICAL)
from scales.mux.sink import TagPool

def body():
  S = pe.ENG.solver
  pool = TagPool(2**24-1, 'svc', 'h:1')
  n = z3.Int('next'); S.add(n >= 1, n <= 2**24-2)
  pool._next = SymInt(n)
  # free set with one symbolic tag
  f = z3.Int('f'); S.add(f >= 2, f <= n)
  has_free = z3.Bool('has_free')
  if pe.ENG.decide(has_free):
    pool._set.add(SymInt(f))
  tag_map = {}
  t = z3.Int('t'); S.add(t >= 2, t <= n, t != f)
  tag_map[SymInt(t)] = 'inflight'
  # op: peer reply with arbitrary tag r  (models _ReleaseTag)
  r = z3.Int('r'); S.add(r >= 0, r < 2**24)
  tup = tag_map.pop(SymInt(r), None)
  pool.release(SymInt(r))
  # op: get
  try:
    g = pool.get()
  except Exception as e:
    return [('exhausted-only-at-max', n == 2**24-2)]
  ge = pe.lift(g)
  out = [('range', z3.And(ge >= 2, ge <= 2**24-2))]
  if tag_map:
    out.append(('unique-vs-inflight', ge != t))
  return out
p,q,f = pe.explore(body)
print('paths',p,'queries',q)
for name,m,tr in f: print('FAIL',name,m)
