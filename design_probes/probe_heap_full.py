"""Throwaway: one inductive step of dispatch / complete / remove on the real HeapBalancerSink
with symbolic outstanding counts, down flags and channel states; unfixed vs candidate fix."""
import sys, time, logging, itertools
import z3
import probe_engine as pe
from probe_engine import SymInt, SymBool, lift
logging.disable(logging.CRITICAL)
from scales.loadbalancer import heap as H
from scales.loadbalancer.heap import HeapBalancerSink, Heap
from scales.constants import ChannelState, MessageProperties
from scales.sink import ClientMessageSinkStack
from scales.message import Message
SymInt.__hash__ = lambda s: 0
SymInt.__int__ = lambda s: 0
SymInt.__mul__ = lambda s, o: SymInt(s.e * lift(o))
Idle, Pen = HeapBalancerSink.Idle, HeapBalancerSink.Penalty

class Rnd:
  def randint(self, a, b):
    j = z3.FreshInt('rnd'); pe.ENG.solver.add(j >= lift(a), j <= lift(b))
    # concretise by forking (index must be concrete)
    for v in range(a, b):
      if pe.ENG.decide(j == v): return v
    return b
H.random = Rnd()

class Chan:
  def __init__(self, i, st): self.i = i; self._st = st; self.closed = 0; self.reqs = 0
  @property
  def state(self): return self._st
  def Close(self): self.closed += 1
  def Open(self):
    from scales.asynchronous import AsyncResult
    return AsyncResult.Complete()
  def AsyncProcessRequest(self, *a): self.reqs += 1
  @property
  def is_open(self): return bool(self._st <= ChannelState.Busy)
  @property
  def is_closed(self): return bool(self._st == ChannelState.Closed)
class SSP: endpoint_name = None

def build(N, ndown):
  S = pe.ENG.solver
  Params = HeapBalancerSink.Builder.PARAMS_CLASS
  s = HeapBalancerSink(None, Params(server_set_provider=SSP()), {'label': 'x'})
  outs, downs, sts, loads = [], [], [], []
  for i in range(1, N + 1):
    o = z3.Int('out%d' % i); d = z3.Bool('down%d' % i); st = z3.Int('st%d' % i)
    S.add(o >= 0, o < 1000, st >= 1, st <= 4)
    outs.append(o); downs.append(d); sts.append(st)
    loads.append(Idle + o + z3.If(d, Pen, 0))
  # shape: which nodes are down (explicit), at most ndown
  S.add(z3.PbLe([(d, 1) for d in downs], ndown))
  nodes = []
  for i in range(1, N + 1):
    n = HeapBalancerSink.Node(Chan(i, SymInt(sts[i-1])), SymInt(loads[i-1]), i, 'ep%d' % i)
    s._heap.append(n); nodes.append(n)
    if i > 1:
      S.add(loads[i//2 - 1] <= loads[i-1])
  s._size = N
  dq = None
  for i in range(N, 0, -1):
    if pe.ENG.decide(downs[i-1]):
      nodes[i-1].downq = dq; dq = nodes[i-1]
  s._downq = dq
  return s, nodes, outs, downs, sts

def inv(s):
  h = s._heap; out = []
  for i in range(1, s._size + 1):
    out.append(('index@%d' % i, z3.BoolVal(h[i].index == i)))
    if i > 1: out.append(('order@%d' % i, lift(h[i//2].load) <= lift(h[i].load)))
  return out

def step_dispatch(N, ndown):
  def body():
    s, nodes, outs, downs, sts = build(N, ndown)
    st = ClientMessageSinkStack(); msg = Message()
    s._AsyncProcessRequestImpl(st, msg, None, None)
    c = [n for n in nodes if n.channel.reqs][0].channel.i - 1
    out = inv(s)
    someopen = z3.Or([x == 2 for x in sts])
    least = z3.And([z3.Implies(sts[j] == 2, outs[c] <= outs[j]) for j in range(N)])
    out.append(('C03', z3.Or(z3.And(sts[c] == 2, least), z3.Not(someopen))))
    return out
  return body

def step_complete(N, ndown, v):
  def body():
    s, nodes, outs, downs, sts = build(N, ndown)
    pe.ENG.solver.add(outs[v-1] >= 1)
    before = lift(nodes[v-1].load)
    s._HeapBalancerSink__Put(nodes[v-1])
    out = inv(s)
    out.append(('dec', lift(nodes[v-1].load) == before - 1))
    return out
  return body

def step_remove(N, ndown, v):
  def body():
    s, nodes, outs, downs, sts = build(N, ndown)
    s._RemoveSink('ep%d' % v)
    out = inv(s)
    out.append(('gone', z3.BoolVal(nodes[v-1].index == -1 and nodes[v-1] not in s._heap)))
    out.append(('closed-iff', z3.BoolVal(nodes[v-1].channel.closed == 1) == z3.Or(outs[v-1] == 0, downs[v-1])))
    return out
  return body

def run_all(tag, Ns, ndown):
  for N in Ns:
    t = time.time(); P = Q = 0; bad = []
    jobs = [('dispatch', step_dispatch(N, ndown))] + \
           [('complete%d' % v, step_complete(N, ndown, v)) for v in range(1, N+1)] + \
           [('remove%d' % v, step_remove(N, ndown, v)) for v in range(1, N+1)]
    for name, b in jobs:
      p, q, f = pe.explore(b); P += p; Q += q
      if f: bad.append((name, f[0][0]))
    print('%s N=%d paths=%d queries=%d %.1fs' % (tag, N, P, Q, time.time()-t), bad[:4] if bad else 'all hold')

if __name__ == '__main__':
  run_all('unfixed', [4, 5, 6], 1)
  # candidate fix: FixUp(i) after FixDown(i, size-1) when i < size
  def fixed_remove(self, endpoint):
    with self._heap_lock:
      node = self._FindNodeByEndpoint(endpoint)
      if not node or node.index < 0: return False
      i = node.index
      Heap.Swap(self._heap, i, self._size)
      Heap.FixDown(self._heap, i, self._size - 1)
      if i < self._size: Heap.FixUp(self._heap, i)
      self._heap.pop(); self._size -= 1
      node.index = -1
      if node.load == self.Idle or node.load >= 0: node.channel.Close()
      return True
  def fixed_put(self, n):
    n.load -= 1
    if n.load < self.Idle: n.load = self.Idle
    if n.index < 0 and n.load > self.Idle: pass
    elif n.index < 0 and n.load == self.Idle: n.channel.Close()
    elif n.load == self.Idle and self._size > 1:
      i = n.index
      Heap.Swap(self._heap, i, self._size)
      Heap.FixDown(self._heap, i, self._size - 1)
      if i < self._size: Heap.FixUp(self._heap, i)
      j = H.random.randint(1, self._size)
      Heap.Swap(self._heap, j, self._size)
      Heap.FixUp(self._heap, j)
      Heap.FixUp(self._heap, self._size)
    else:
      Heap.FixUp(self._heap, n.index)
    self._OnPut(n)
  HeapBalancerSink._RemoveSink = fixed_remove
  HeapBalancerSink._HeapBalancerSink__Put = fixed_put
  run_all('fixed  ', [4, 5, 6, 7], 1)
