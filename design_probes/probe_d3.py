import sys, logging
logging.disable(logging.CRITICAL)
exec(open('probe_stack.py').read().split("from scales.thrift import Thrift")[0])
from scales.thriftmux import ThriftMux
FakeGSocket.mux = True
FakeGSocket.delay = 1000      # peer never answers dispatches in time ... but must answer the ping quickly
_orig = FakeGSocket._serve
def connect(self, addr): gevent.sleep(3.0)          # open latency L = 3 (+ ping round trip)
FakeGSocket.connect = connect
def sendall(self, data):
  LOG.append(('tx', time.time(), len(data)))
  self.inbuf += bytes(data)
  while len(self.inbuf) >= 4:
    n, = struct.unpack('!i', self.inbuf[:4])
    if len(self.inbuf) < 4 + n: break
    frame, self.inbuf = self.inbuf[4:4+n], self.inbuf[4+n:]
    typ, = struct.unpack('!b', frame[:1])
    gevent.spawn_later(0.0 if typ == 65 else 1000, self._serve, frame)
FakeGSocket.sendall = sendall
for L_desc, T in (('L=3,T=10', 10), ('L=3,T=2', 2)):
  t0 = time.time()
  c = ThriftMux.NewBuilder(Hello.Iface).SetUri('tcp://a:1').SetTimeout(T).SetOpenTimeout(0).Build()
  ar = c.hi_async('x')
  try: ar.get()
  except Exception as e: print(L_desc, type(e).__name__, 'delivered at t+%.2f  (t+T = t+%d)' % (time.time()-t0, T))
  c.DispatcherClose()
