import sys, time, z3
import probe_engine as pe
import engine2
import probe_heap_full as hf
H = [None]
class Shim:
  @property
  def solver(self): return H[0]
  def decide(self, c): return H[0].decide(c)
class SolverShim:
  def add(self, *cs): H[0].add(*cs)
class EngShim:
  solver = SolverShim()
  def decide(self, c): return H[0].decide(c)
pe.ENG = EngShim()
# deterministic fresh names for the random stub
class Rnd:
  def randint(self, a, b):
    j = z3.Int(H[0].name('rnd')); H[0].add(j >= pe.lift(a), j <= pe.lift(b))
    for v in range(a, b):
      if H[0].decide(j == v): return v
    return b
hf.H.random = Rnd()
def run(N, ndown):
  t = time.time(); P = Q = 0; TS = 0; bad = []
  jobs = [('dispatch', hf.step_dispatch(N, ndown))] + [('complete%d' % v, hf.step_complete(N, ndown, v)) for v in range(1, N+1)] + [('remove%d' % v, hf.step_remove(N, ndown, v)) for v in range(1, N+1)]
  for name, b in jobs:
    p, q, ts, f = engine2.explore(b, H); P += p; Q += q; TS += ts
    if f: bad.append((name, f[0][0]))
  print('engine2 N=%d paths=%d queries=%d solver=%.1fs wall=%.1fs' % (N, P, Q, TS, time.time()-t), bad[:4] if bad else 'all hold')
for N in (5, 6): run(N, 1)
