"""Throwaway: real scales ServerSet + REAL kazoo DataWatch/ChildrenWatch over an in-memory znode tree."""
import sys, json, logging
sys.path.insert(0, '/repo'); logging.disable(logging.CRITICAL)
import gevent
from kazoo.client import KazooClient
from kazoo.exceptions import NoNodeError, NotEmptyError
from kazoo.protocol.states import WatchedEvent, EventType, KazooState, ZnodeStat
from kazoo.handlers.gevent import SequentialGeventHandler

class Tree(object):
  def __init__(self): self.nodes = {}; self.zxid = 0; self.data_w = {}; self.child_w = {}
  def _fire(self, table, path, typ):
    ws = table.pop(path, [])
    for w in ws: gevent.spawn(w, WatchedEvent(typ, KazooState.CONNECTED, path))   # asynchronous delivery
  def create(self, path, data=b''):
    self.zxid += 1; self.nodes[path] = (data, self.zxid)
    parent = path.rsplit('/', 1)[0] or '/'
    self._fire(self.data_w, path, EventType.CREATED); self._fire(self.child_w, parent, EventType.CHILD)
  def delete(self, path):
    if any(p.startswith(path + '/') for p in self.nodes): raise NotEmptyError()
    del self.nodes[path]; self.zxid += 1
    parent = path.rsplit('/', 1)[0] or '/'
    self._fire(self.data_w, path, EventType.DELETED); self._fire(self.child_w, path, EventType.DELETED)
    self._fire(self.child_w, parent, EventType.CHILD)
  def stat(self, path):
    z = self.nodes[path][1]; return ZnodeStat(z, z, 0, 0, 0, 0, 0, 0, len(self.nodes[path][0]), 0, z)

class FakeZk(KazooClient):
  def __init__(self, tree):
    self.tree = tree; self.handler = SequentialGeventHandler(); self._listeners = []
  connected = True
  def start(self, timeout=15): pass
  def stop(self): pass
  def add_listener(self, l): self._listeners.append(l)
  def remove_listener(self, l): pass
  def retry(self, func, *a, **k): return func(*a, **k)
  def exists(self, path, watch=None):
    if watch: self.tree.data_w.setdefault(path, []).append(watch)
    return self.tree.stat(path) if path in self.tree.nodes else None
  def get(self, path, watch=None):
    if path not in self.tree.nodes: raise NoNodeError()
    if watch: self.tree.data_w.setdefault(path, []).append(watch)
    return self.tree.nodes[path][0], self.tree.stat(path)
  def get_children(self, path, watch=None, include_data=False):
    if path not in self.tree.nodes: raise NoNodeError()
    if watch: self.tree.child_w.setdefault(path, []).append(watch)
    return sorted(p[len(path)+1:] for p in self.tree.nodes if p.startswith(path + '/') and '/' not in p[len(path)+1:])

from scales.loadbalancer.zookeeper import ServerSet
def member(port): return json.dumps({'serviceEndpoint': {'host': 'h', 'port': port}, 'additionalEndpoints': {}, 'status': 'ALIVE'}).encode()
t = Tree(); zk = FakeZk(t)
t.create('/svc'); t.create('/svc/member_1', member(1))
view = {}; log = []
def on_join(m): log.append(('join', m.name)); view[m.name] = m
def on_leave(m): log.append(('leave', m.name)); view.pop(m.name, None)
ss = ServerSet(zk, '/svc', on_join, on_leave, lambda n: n.startswith('member_'))
def settle():
  for _ in range(20): gevent.sleep(0)
settle(); print('initial get_members', [m.name for m in ss.get_members()], 'view', sorted(view))
t.create('/svc/member_2', member(2)); settle(); print('after create 2', sorted(view))
t.delete('/svc/member_1'); settle(); print('after delete 1', sorted(view))
# recursive delete racing the children watch: delete child and parent before watches are delivered
t.create('/svc/member_3', member(3)); settle(); print('with 2,3', sorted(view))
t.delete('/svc/member_2'); t.delete('/svc/member_3'); t.delete('/svc'); settle()
print('after racing recursive delete: view', sorted(view), ' zk has', [p for p in t.nodes])
t.create('/svc'); t.create('/svc/member_3', member(3)); settle()
print('after re-create with member_3: view', sorted(view), ' zk has', sorted(t.nodes))
print(log)
