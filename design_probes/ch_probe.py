from typing import List, Dict
from io import BytesIO
from scales.thriftmux.sink import SocketTransportSink, ThriftMuxMessageSerializerSink
from scales.thriftmux.serializer import MessageSerializer
from scales.mux.sink import TagPool
from scales.asynchronous import AsyncResult

def hdr_roundtrip(tag: int, msg_type: int, data_len: int) -> bool:
  """
  pre: 0 <= tag < 2**24
  pre: -128 <= msg_type < 0
  pre: 0 <= data_len < 1000
  post: _
  """
  h = SocketTransportSink._BuildHeader(SocketTransportSink, tag, msg_type, data_len)
  mt, t = ThriftMuxMessageSerializerSink.ReadHeader(BytesIO(h[4:]))
  return mt == msg_type and t == tag

def ctx_lengths(ctx: Dict[str, str]) -> bool:
  """
  pre: len(ctx) <= 1
  pre: all(len(k) <= 2 and len(v) <= 2 for k, v in ctx.items())
  post: _
  """
  buf = BytesIO()
  MessageSerializer._WriteContext(ctx, buf)
  data = buf.getvalue()
  want = 2 + sum(2 + len(k.encode('utf-8')) + 2 + len(v.encode('utf-8')) for k, v in ctx.items())
  return len(data) == want

def whenall(n: int) -> bool:
  """
  pre: 0 <= n <= 3
  post: _
  """
  ars = [AsyncResult() for _ in range(3)]
  r = AsyncResult.WhenAll(ars)
  for i in range(3):
    ars[(i + n) % 3].set(i)
  import gevent
  gevent.sleep(0)
  return r.ready()
