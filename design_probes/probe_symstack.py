"""Throwaway: symbolic reply delay / timeout through the REAL Thrift stack (public builder) on vloop."""
import sys, struct, logging, time as _t
sys.path.insert(0, '/repo'); logging.disable(logging.CRITICAL)
import z3
import probe_engine as pe
from probe_engine import SymBool
exec(open('probe_symtime.py').read().split("loop = gevent.get_hub().loop")[0].split("import gevent, gevent.hub")[1])  # SymReal class
import gevent, gevent.queue
import time, math
loop = gevent.get_hub().loop
time.time = lambda: loop.now()
SymReal.__mul__ = lambda s, o: SymReal(s.e * SymReal.lift(o)); SymReal.__rmul__ = SymReal.__mul__
SymReal.__truediv__ = lambda s, o: SymReal(s.e / SymReal.lift(o))
SymReal.__float__ = lambda s: (_ for _ in ()).throw(TypeError('float() of SymReal at C boundary'))
import scales.scales_socket as ss, scales.timer_queue as tqm, scales.sink as sinkm, scales.message as msgm
from test.scales.thrift.gen_py.hello import Hello
from thrift.protocol.TBinaryProtocol import TBinaryProtocol
from thrift.transport.TTransport import TMemoryBuffer

class _Math:
  @staticmethod
  def ceil(x):
    if isinstance(x, SymReal):
      k = z3.FreshInt('ceil'); pe.ENG.solver.add(z3.ToReal(k) >= x.e, z3.ToReal(k) - 1 < x.e); return SymRealInt(k)
    return math.ceil(x)
class SymRealInt(SymReal):
  def __init__(s, k): s.e = z3.ToReal(k)
import scales.varz as vz
class _VMath:
  @staticmethod
  def exp(x):
    if isinstance(x, SymReal):
      w = z3.FreshReal('w'); pe.ENG.solver.add(w > 0, w <= 1, (w == 1) == (x.e == 0)); return SymReal(w)
    return math.exp(x)
  floor = staticmethod(math.floor); ceil = staticmethod(math.ceil)
vz.math = _VMath; vz.float = lambda x: x if isinstance(x, SymReal) else float(x)
SymReal.__neg__ = lambda s: SymReal(-s.e)
tqm.math = _Math; tqm.float = lambda x: x if isinstance(x, SymReal) else float(x); tqm.int = lambda x: x if isinstance(x, SymReal) else int(x)

class Handler:
  def hi(self, s): return 'echo:' + s
PROC = Hello.Processor(Handler())
def thrift_reply(payload):
  itr = TMemoryBuffer(payload); otr = TMemoryBuffer(); PROC.process(TBinaryProtocol(itr), TBinaryProtocol(otr)); return otr.getvalue()
CFG = {}
WIRE = []
class FakeGSocket:
  def __init__(self, family, typ): self.rx = gevent.queue.Queue(); self.buf = b''; self.inbuf = b''; self.connected = False; self.closed = False
  def connect(self, addr): gevent.sleep(CFG['connect']); self.connected = True
  def setsockopt(self, *a): pass
  def close(self): self.closed = True; self.rx.put(b'')
  def sendall(self, data):
    if not self.connected or self.closed: raise OSError('not connected')
    WIRE.append((time.time(), bytes(data))); self.inbuf += bytes(data)
    while len(self.inbuf) >= 4:
      n, = struct.unpack('!i', self.inbuf[:4])
      if len(self.inbuf) < 4 + n: break
      frame, self.inbuf = self.inbuf[4:4+n], self.inbuf[4+n:]
      gevent.spawn_later(CFG['reply'], self._serve, frame)
  def _serve(self, frame):
    out = thrift_reply(frame); self.rx.put(struct.pack('!i', len(out)) + out)
  def recv_into(self, view, sz):
    if self.closed: raise OSError('closed')
    while not self.buf:
      self.buf = self.rx.get()
      if self.buf == b'': return 0
    n = min(sz, len(self.buf)); view[:n] = self.buf[:n]; self.buf = self.buf[n:]; return n
class FakeSocketMod:
  error = OSError; AF_UNSPEC = 0; SOCK_STREAM = 1; AI_PASSIVE = 1; AI_ADDRCONFIG = 2
  @staticmethod
  def getaddrinfo(host, port, *a): return [(2, 1, 6, '', (host, port))]
ss.gsocket = FakeGSocket; ss.socket = FakeSocketMod
from scales.thrift import Thrift
from scales.timer_queue import TimerQueue
from scales.varz import VarzReceiver
import gc
GREENLETS = []
from gevent import Greenlet
Greenlet.add_spawn_callback(lambda g: GREENLETS.append(g))

def body():
  del WIRE[:]; del GREENLETS[:]
  loop.reset(SymReal(z3.RealVal(1000)))
  S = pe.ENG.solver
  d, T = z3.Real('reply_delay'), z3.Real('T')
  S.add(d >= 0, d <= 30, T > 0, T <= 20)
  CFG['connect'] = 0.1; CFG['reply'] = SymReal(d)
  sinkm.GLOBAL_TIMER_QUEUE = TimerQueue(time_source=time.time, resolution=0.01)
  c = Thrift.NewBuilder(Hello.Iface).SetUri('tcp://a:1').SetTimeout(SymReal(T)).Build()
  t0 = time.time()
  res = {}
  ar = c.hi_async('x')
  def watch():
    try: res['v'] = ar.get()
    except BaseException as e: res['e'] = e
    res['t'] = time.time()
  w = gevent.spawn(watch)
  gevent.sleep(60)
  out = [('completed', z3.BoolVal('t' in res))]
  if 't' in res:
    dt = SymReal.lift(res['t'] - t0)
    out.append(('by-deadline', dt <= T + 0.01))
    if 'e' in res and type(res['e']).__name__ == 'TimeoutError':
      out.append(('timeout-not-early', dt >= T))
    if 'v' in res: out.append(('value', z3.BoolVal(res['v'] == 'echo:x')))
    out.append(('kind', z3.BoolVal(('v' in res) or type(res['e']).__name__ == 'TimeoutError')))
  c.DispatcherClose()
  sinkm.GLOBAL_TIMER_QUEUE._worker.kill(block=False)
  gevent.killall([g for g in GREENLETS if not g.dead], block=False)
  gevent.sleep(0); gevent.sleep(0)
  body.kinds.append(('v' if 'v' in res else type(res.get('e')).__name__))
  return out
body.kinds = []
t = _t.perf_counter()
p, q, f = pe.explore(body)
print('paths', p, 'queries', q, '%.2fs' % (_t.perf_counter() - t), 'outcomes', sorted(set(body.kinds)))
for n, m, tr in f[:3]: print('FAIL', n, m)
