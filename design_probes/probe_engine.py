"""Throwaway feasibility probe: z3-proxy dynamic symbolic execution of the real
HeapBalancerSink code (one inductive step of _RemoveSink)."""
import sys, time, functools
import z3

class Engine:
  def __init__(self):
    self.solver = z3.Solver()
    self.trace = []      # decisions taken on this path
    self.prefix = []     # decisions to replay
    self.work = []       # pending prefixes
    self.nq = 0
  def decide(self, cond):
    """cond: z3 BoolRef. returns python bool; forks."""
    cond = z3.simplify(cond)
    if z3.is_true(cond): return True
    if z3.is_false(cond): return False
    i = len(self.trace)
    if i < len(self.prefix):
      b = self.prefix[i]
      self.trace.append(b)
      self.solver.add(cond if b else z3.Not(cond))
      return b
    # new decision
    self.nq += 2
    self.solver.push(); self.solver.add(cond); t = self.solver.check() == z3.sat; self.solver.pop()
    self.solver.push(); self.solver.add(z3.Not(cond)); f = self.solver.check() == z3.sat; self.solver.pop()
    if t and f:
      self.work.append(self.trace + [False])
      b = True
    elif t: b = True
    elif f: b = False
    else: raise RuntimeError("infeasible path")
    self.trace.append(b)
    self.solver.add(cond if b else z3.Not(cond))
    return b

ENG = None

def lift(x):
  if isinstance(x, SymInt): return x.e
  if isinstance(x, bool): return z3.IntVal(int(x))
  if isinstance(x, int): return z3.IntVal(x)
  raise TypeError(type(x))

class SymBool:
  def __init__(self, e): self.e = e
  def __bool__(self): return ENG.decide(self.e)

class SymInt:
  def __init__(self, e): self.e = e
  def __add__(self, o): return SymInt(self.e + lift(o))
  __radd__ = __add__
  def __sub__(self, o): return SymInt(self.e - lift(o))
  def __rsub__(self, o): return SymInt(lift(o) - self.e)
  def __lt__(self, o): return SymBool(self.e < lift(o))
  def __le__(self, o): return SymBool(self.e <= lift(o))
  def __gt__(self, o): return SymBool(self.e > lift(o))
  def __ge__(self, o): return SymBool(self.e >= lift(o))
  def __eq__(self, o): return SymBool(self.e == lift(o))
  def __ne__(self, o): return SymBool(self.e != lift(o))
  __hash__ = None

def explore(body, budget=200000):
  """Run body() over all paths. body sets up state afresh each time and
  returns list of (name, z3 bool) assertions to check at path end."""
  global ENG
  work = [[]]
  paths = 0; fails = []; nq = 0
  while work:
    pre = work.pop()
    ENG = Engine(); ENG.prefix = pre
    asserts = body()
    paths += 1
    for name, a in asserts:
      ENG.solver.push(); ENG.solver.add(z3.Not(a)); r = ENG.solver.check(); nq += 1
      if r == z3.sat:
        fails.append((name, ENG.solver.model(), list(ENG.trace)))
      ENG.solver.pop()
    nq += ENG.nq
    work.extend(ENG.work)
    if paths > budget: raise RuntimeError("budget")
    if fails: break
  return paths, nq, fails

# ---- harness on the real code
import logging
logging.disable(logging.CRITICAL)
from scales.loadbalancer.heap import HeapBalancerSink, Heap
from scales.constants import ChannelState

class FakeChannel:
  def __init__(self, st): self.state = st; self.closed = 0
  def Close(self): self.closed += 1
  @property
  def is_open(self): return self.state <= ChannelState.Busy
  @property
  def is_closed(self): return self.state == ChannelState.Closed

class FakeSSP:
  endpoint_name = None

def mk_sink(N, loads):
  Params = HeapBalancerSink.Builder.PARAMS_CLASS
  s = HeapBalancerSink(None, Params(server_set_provider=FakeSSP()), {'label': 'x'})
  for i in range(1, N+1):
    n = HeapBalancerSink.Node(FakeChannel(ChannelState.Open), loads[i-1], i, 'ep%d' % i)
    s._heap.append(n)
  s._size = N
  return s

Idle = HeapBalancerSink.Idle

def step_remove(N, victim):
  def body():
    ls = [z3.Int('l%d' % i) for i in range(1, N+1)]
    S = ENG.solver
    for i, l in enumerate(ls, 1):
      S.add(l >= Idle, l <= Idle + 10)
      if i > 1: S.add(ls[i//2 - 1] <= l)
    sink = mk_sink(N, [SymInt(l) for l in ls])
    sink._RemoveSink('ep%d' % victim)
    h = sink._heap
    out = []
    for i in range(2, sink._size + 1):
      out.append(('heap-order@%d' % i, lift(h[i//2].load) <= lift(h[i].load)))
    return out
  return body

if __name__ == '__main__':
  for N in range(2, 9):
    t = time.time(); tp = tq = 0; bad = None
    for v in range(1, N+1):
      p, q, fails = explore(step_remove(N, v))
      tp += p; tq += q
      if fails and not bad: bad = (v, fails[0])
    print('N=%d paths=%d queries=%d %.2fs' % (N, tp, tq, time.time()-t), 'VIOL' if bad else 'ok')
    if bad:
      v, (name, m, tr) = bad
      print('   victim', v, name, sorted((str(d), m[d].as_long() - Idle) for d in m.decls()))
