"""Concrete confirmation of 'read' hypotheses on the unchanged tree (real gevent, real loop)."""
import sys, logging, struct, io
sys.path.insert(0, '/repo'); logging.disable(logging.CRITICAL)
import gevent
def section(s): print('\n==', s)

section('D11 Source eq/hash')
from scales.varz import Source, VarzReceiver, VarzAggregator
a, b = Source(method='m', service='s'), Source(method='m', service='s')
print('equal tuples', a.to_tuple()==b.to_tuple(), ' a==b', a==b, ' hash eq', hash(a)==hash(b))
VarzReceiver.IncrementVarz(a, 'x.y', 1); VarzReceiver.IncrementVarz(b, 'x.y', 1)
print('series for x.y:', len(VarzReceiver.VARZ_DATA['x.y']))

section('D12 WhenAny')
from scales.asynchronous import AsyncResult
f = AsyncResult(); f.set_exception(Exception('early fail')); p = AsyncResult()
r = AsyncResult.WhenAny([f, p]); p.set(7); gevent.sleep(0)
print('already-failed + later success ->', 'exception' if r.exception else r.value)
x, y = AsyncResult(), AsyncResult(); r = AsyncResult.WhenAny([x, y]); x.set(1); gevent.sleep(0)
v1 = (r.successful(), r.value); y.set_exception(Exception('late fail')); gevent.sleep(0)
print('success then last fails ->', v1, '->', r.successful(), repr(r.exception))
r0 = AsyncResult.WhenAll([]); gevent.sleep(0); print('WhenAll([]) ready:', r0.ready())

section('D9 kafka header')
from scales.kafka.sink import KafkaTransportSink
try:
  print(KafkaTransportSink._BuildHeader(KafkaTransportSink, 5, 0, 10))
except Exception as e: print('raises', type(e).__name__, e)

section('D8 ReadHeader for type 127 / 2')
from scales.thriftmux.sink import SocketTransportSink as MuxSink, ThriftMuxMessageSerializerSink as Ser
for t in (127, 2, -2, -128, -65):
  h = MuxSink._BuildHeader(MuxSink, 77, t, 0)
  print(t, '->', Ser.ReadHeader(io.BytesIO(h[4:])))

section('D10 void / missing result')
from thrift.Thrift import TType, TMessageType
from thrift.protocol.TBinaryProtocol import TBinaryProtocol
from thrift.transport.TTransport import TMemoryBuffer
import types
mod = types.ModuleType('fake_void_svc'); sys.modules['fake_void_svc'] = mod
class Iface(object):
  def ping(self): pass
Iface.__module__ = 'fake_void_svc'
class ping_args(object):
  thrift_spec = ()
  def write(self, o): o.writeStructBegin('ping_args'); o.writeFieldStop(); o.writeStructEnd()
class ping_result(object):
  thrift_spec = ()
  def read(self, i):
    i.readStructBegin()
    while True:
      (_, ft, fid) = i.readFieldBegin()
      if ft == TType.STOP: break
      i.skip(ft); i.readFieldEnd()
    i.readStructEnd()
mod.Iface, mod.ping_args, mod.ping_result = Iface, ping_args, ping_result
from scales.thrift.serializer import MessageSerializer
tb = TMemoryBuffer(); pr = TBinaryProtocol(tb)
pr.writeMessageBegin('ping', TMessageType.REPLY, 0); pr.writeStructBegin('r'); pr.writeFieldStop(); pr.writeStructEnd(); pr.writeMessageEnd()
m = MessageSerializer(Iface).DeserializeThriftCall(io.BytesIO(tb.getvalue()))
print('void reply -> return_value=%r error=%r' % (m.return_value, m.error))
from test.scales.thrift.gen_py.hello import Hello
tb = TMemoryBuffer(); pr = TBinaryProtocol(tb)
pr.writeMessageBegin('hi', TMessageType.REPLY, 0); pr.writeStructBegin('r'); pr.writeFieldStop(); pr.writeStructEnd(); pr.writeMessageEnd()
m = MessageSerializer(Hello.Iface).DeserializeThriftCall(io.BytesIO(tb.getvalue()))
print('hi() empty result -> return_value=%r error=%r' % (m.return_value, m.error))

section('D3 deadline arithmetic')
import inspect, scales.dispatch as d
print([l.strip() for l in inspect.getsource(d.MessageDispatcher._DispatchMethod).splitlines() if 'deadline =' in l])

section('D2 watermark: timed-out waiter then release')
from scales.pool.watermark import WatermarkPoolSink
from scales.constants import SinkProperties, ChannelState
from scales.loadbalancer.zookeeper import Endpoint
from scales.sink import ClientMessageSinkStack
from scales.message import MethodReturnMessage, TimeoutError as STimeout
from test.scales.util.mocks import MockSinkProvider, MockSink
prov = MockSinkProvider()
pool = WatermarkPoolSink(prov, WatermarkPoolSink.Builder(max_watermark=1).sink_properties,
                         {SinkProperties.Label: 'm', SinkProperties.Endpoint: Endpoint('h', 1)})
pool.Open().wait()
got = {}
def mkstack(name):
  st = ClientMessageSinkStack(); t = MockSink({SinkProperties.Endpoint: None})
  t.ProcessResponse = lambda ss, ctx, s, m: got.setdefault(name, []).append(m)
  st.Push(t); return st
s1, s2, s3 = mkstack('r1'), mkstack('r2'), mkstack('r3')
pool.AsyncProcessRequest(s1, object(), None, None)
pool.AsyncProcessRequest(s2, object(), None, None)
pool.AsyncProcessRequest(s3, object(), None, None)
print('waiters', len(pool._waiters), 'size', pool._current_size)
s2.AsyncProcessResponseMessage(MethodReturnMessage(error=STimeout()))   # what ClientTimeoutSink does
s1.AsyncProcessResponseMessage(MethodReturnMessage(return_value=1))
gevent.sleep(0); gevent.sleep(0)
print('after release: waiters', len(pool._waiters), 'size', pool._current_size, 'cache', len(pool._cache),
      'r3 started on a connection:', s3.Any() and isinstance(list(s3._stack)[-1][1], MockSink))

section('D2b dead cached sink')
prov = MockSinkProvider()
pool = WatermarkPoolSink(prov, WatermarkPoolSink.Builder(max_watermark=1).sink_properties,
                         {SinkProperties.Label: 'm', SinkProperties.Endpoint: Endpoint('h', 1)})
pool.Open().wait(); prov.sinks_created[0].state = ChannelState.Closed
s = mkstack('q'); pool.AsyncProcessRequest(s, object(), None, None)
print('size', pool._current_size, 'sinks created', len(prov.sinks_created), 'waiters', len(pool._waiters))

section('D13 zookeeper _send_all_removed')
from scales.loadbalancer.zookeeper import ServerSet
class S(ServerSet):
  def __init__(self): self._members = {'a': 1, 'b': 2}; self._on_leave = lambda m: print('  leave', m)
try: S()._send_all_removed()
except Exception as e: print('raises', type(e).__name__, e)
