import gevent, gevent.event, gevent.queue, sys
from gevent.event import Event, AsyncResult
log = []
def L(x): log.append(x)
ev = Event(); ar = AsyncResult(); q = gevent.queue.Queue()
def waiter(n):
  ev.wait(); L('w%d' % n)
def arw(n):
  L('ar%d=%s' % (n, ar.get()))
def cons():
  while True:
    x = q.get(); L('q%s' % x)
    if x == 'end': return
def sleeper(n, t):
  gevent.sleep(t); L('s%d' % n)
def tmo():
  try:
    with gevent.Timeout(0.02): gevent.sleep(1)
  except gevent.Timeout: L('tmo')
def setter():
  L('set'); ev.set(); L('set-done'); ar.set(5); gevent.sleep(0); L('after-yield'); q.put(1); q.put(2); q.put('end')
gs = [gevent.spawn(waiter, 1), gevent.spawn(arw, 1), gevent.spawn(waiter, 2), gevent.spawn(cons), gevent.spawn(arw, 2),
      gevent.spawn(sleeper, 1, 0.03), gevent.spawn(sleeper, 2, 0.01), gevent.spawn(sleeper, 3, 0), gevent.spawn(tmo),
      gevent.spawn(sleeper, 4, 0.01), gevent.spawn_later(0.01, L, 'later'), gevent.spawn(setter)]
ar.rawlink(lambda a: L('link1')); ar.rawlink(lambda a: L('link2'))
k = gevent.spawn(sleeper, 9, 5); 
def killer(): gevent.sleep(0.015); k.kill(block=False); L('killed')
gs.append(gevent.spawn(killer))
gevent.joinall(gs)
print(type(gevent.get_hub().loop).__module__, ' '.join(log))
