"""Throwaway: incremental-solver variant of the probe engine (one solver, push/pop along the DFS spine,
model-guided decisions) to measure the achievable speed-up."""
import z3, time

class Engine2:
  def __init__(self):
    self.s = z3.Solver()
    self.levels = 0          # solver push depth == number of decisions asserted
    self.spine = []          # decisions currently asserted in the solver
    self.nq = 0; self.tsolve = 0.0
    self.model = None
  # per-path state
  def begin(self, prefix):
    # pop solver back to the common prefix with the spine
    k = 0
    while k < len(prefix) and k < len(self.spine) and prefix[k] == self.spine[k]: k += 1
    # prefix differs from spine at k (prefix[k] is the flipped decision) -> keep k levels
    while self.levels > k: self.s.pop(); self.levels -= 1
    self.spine = self.spine[:k]
    self.keep = k            # decisions whose constraints are already in the solver
    self.prefix = prefix; self.trace = []; self.work = []
    self.model = None
    self.fresh = 0
  def add(self, *cs):
    # constraints issued before decision number `keep` are already asserted (deterministic replay)
    if len(self.trace) < self.keep: return
    self.s.add(*cs); self.model = None
  def name(self, base):
    self.fresh += 1; return '%s!%d' % (base, self.fresh)
  def _check(self, *extra):
    t = time.perf_counter(); r = self.s.check(*extra); self.tsolve += time.perf_counter() - t; self.nq += 1
    return r
  def decide(self, cond):
    cond = z3.simplify(cond)
    if z3.is_true(cond): return True
    if z3.is_false(cond): return False
    i = len(self.trace)
    if i < len(self.prefix):
      b = self.prefix[i]
    else:
      if self.model is None:
        if self._check() != z3.sat: raise RuntimeError('infeasible path')
        self.model = self.s.model()
      mv = self.model.eval(cond, model_completion=True)
      b = z3.is_true(mv)
      other = z3.Not(cond) if b else cond
      if self._check(other) == z3.sat:
        self.work.append(self.trace + [not b])
    self.trace.append(b)
    if i >= self.keep:
      self.s.push(); self.levels += 1; self.spine.append(b)
      self.s.add(cond if b else z3.Not(cond))
      # the cached model still satisfies the chosen side when we chose by the model
      if i < len(self.prefix): self.model = None
    return b
  def check_assert(self, a):
    r = self._check(z3.Not(a))
    return (r, self.s.model() if r == z3.sat else None)

def explore(body, eng_holder, budget=10**7):
  E = Engine2(); eng_holder[0] = E
  work = [[]]; paths = 0; fails = []
  while work:
    pre = work.pop()              # LIFO keeps consecutive paths sharing long prefixes
    E.begin(pre)
    asserts = body()
    paths += 1
    nontriv = []
    for name, a in asserts:
      a = z3.simplify(a)
      if z3.is_true(a): continue
      nontriv.append((name, a))
    if nontriv:
      r, m = E.check_assert(z3.And([a for _, a in nontriv]))
      if r == z3.sat:
        for name, a in nontriv:
          r2, m2 = E.check_assert(a)
          if r2 == z3.sat: fails.append((name, m2, list(E.trace)))
      elif r != z3.unsat: raise RuntimeError('unknown')
    work.extend(E.work)
    if fails or paths > budget: break
  return paths, E.nq, E.tsolve, fails
