"""Throwaway: one inductive step of the real WatermarkPoolSink with symbolic configuration."""
import sys, time, logging, z3
sys.path.insert(0, '/repo'); logging.disable(logging.CRITICAL)
import gevent
import probe_engine as pe
from probe_engine import SymInt, SymBool, lift
SymInt.__hash__ = lambda s: 0
SymInt.__int__ = lambda s: 0
from scales.pool.watermark import WatermarkPoolSink, QueuingMessageSink, MaxWaitersError
from scales.pool import watermark as wm
from scales.constants import SinkProperties, ChannelState
from scales.loadbalancer.zookeeper import Endpoint
from scales.sink import ClientMessageSinkStack, ClientMessageSink, FailingMessageSink
from scales.asynchronous import AsyncResult
from scales.message import MethodReturnMessage, TimeoutError as STimeout
from scales.observable import Observable
from scales import varz
varz.VarzReceiver.SetVarz = staticmethod(lambda *a: None)      # gauges hold SymInts; not the subject here

class FakeSink(object):
  n = 0
  def __init__(self, st): FakeSink.n += 1; self.id = FakeSink.n; self._st = st; self.closed = 0; self.reqs = []; self.on_faulted = Observable()
  @property
  def state(self): return self._st
  def Open(self): return AsyncResult.Complete()
  def Close(self): self.closed += 1; self._st = ChannelState.Closed
  def AsyncProcessRequest(self, st, msg, stream, headers): self.reqs.append(st)
class Prov(object):
  def __init__(self): self.created = []
  def CreateSink(self, props): s = FakeSink(ChannelState.Open); self.created.append(s); return s
class Term(ClientMessageSink):
  def __init__(self): super(Term, self).__init__(); self.got = []
  def AsyncProcessRequest(self, *a): pass
  def AsyncProcessResponse(self, st, ctx, stream, msg): self.got.append(msg)

def mk(a, b, w, dead_waiters):
  S = pe.ENG.solver
  mn, mx, ql = z3.Int('min'), z3.Int('max'), z3.Int('qlen')
  S.add(mn >= 0, mn <= 3, mx >= 1, mx <= 3, mn <= mx, ql >= 0, ql <= 3)
  P = WatermarkPoolSink.Builder.PARAMS_CLASS
  prov = Prov()
  pool = WatermarkPoolSink(prov, P(min_watermark=SymInt(mn), max_watermark=SymInt(mx), max_queue_len=SymInt(ql)),
                           {SinkProperties.Label: 'm', SinkProperties.Endpoint: Endpoint('h', 1)})
  pool._state = ChannelState.Open
  # Inv: size = a + b <= max ; cached only while size <= min ; waiters only when size == max ; w <= qlen
  S.add(a + b <= mx, w <= ql)
  if a: S.add(a + b <= mn) if False else None
  if w: S.add(a + b == mx, a == 0)
  pool._current_size = SymInt(z3.IntVal(a + b))
  cached = [FakeSink(ChannelState.Open) for _ in range(a)]
  for c in cached: pool._cache.append(c)
  lent = []
  for _ in range(b):
    s = FakeSink(ChannelState.Open); st = ClientMessageSinkStack(); t = Term(); st.Push(t); st.Push(pool, s); lent.append((s, st, t))
  waiters = []
  for k in range(w):
    st = ClientMessageSinkStack(); t = Term(); st.Push(t); st.Push(pool, QueuingMessageSink(pool._waiters))
    pool._waiters.append((st, 'msg%d' % k, None, None)); waiters.append((st, t))
    if k in dead_waiters:                       # what the real ClientTimeoutSink does on expiry
      st.AsyncProcessResponseMessage(MethodReturnMessage(error=STimeout()))
  return pool, prov, cached, lent, waiters, (mn, mx, ql)

def live(pool, prov, cached, lent):
  allsinks = cached + [s for s, _, _ in lent] + prov.created
  return [s for s in allsinks if not s.closed]

def step_release(a, b, w, dead):
  def body():
    pool, prov, cached, lent, waiters, (mn, mx, ql) = mk(a, b, w, dead)
    s, st, t = lent[0]
    st.AsyncProcessResponseMessage(MethodReturnMessage(return_value=1))     # request completes
    for _ in range(4): gevent.sleep(0)
    out = []
    L = live(pool, prov, cached, lent)
    out.append(('size==live', lift(pool._current_size) == len(L)))
    alive_waiters = [k for k in range(w) if k not in dead]
    if alive_waiters:
      k = alive_waiters[0]
      out.append(('first-live-waiter-started', z3.BoolVal(any(waiters[k][0] is r for r in s.reqs))))
    else:
      out.append(('cached-iff', z3.BoolVal(s in pool._cache) == (a + b <= mn)))
      out.append(('closed-iff', z3.BoolVal(s.closed == 1) == z3.Not(a + b <= mn)))
    return out
  return body

def step_arrive(a, b, w, dead_cached):
  def body():
    pool, prov, cached, lent, waiters, (mn, mx, ql) = mk(a, b, w, ())
    for i in dead_cached: cached[i]._st = ChannelState.Closed
    st = ClientMessageSinkStack(); t = Term(); st.Push(t)
    escaped = None
    try: pool.AsyncProcessRequest(st, 'new', None, None)
    except Exception as e: escaped = e
    for _ in range(4): gevent.sleep(0)
    L = live(pool, prov, cached, lent)
    out = [('size==live', lift(pool._current_size) == len(L)), ('size<=max', lift(pool._current_size) <= mx), ('no-exception-escapes', z3.BoolVal(escaped is None))]
    served = [s for s in cached + prov.created if st in s.reqs]
    queued = any(x[0] is st for x in pool._waiters)
    failed = bool(t.got)
    out.append(('exactly-one-outcome', z3.BoolVal(len(served) + int(queued) + int(failed) == 1)))
    if queued: out.append(('queued-only-at-max', z3.And(len(L) == mx, w + 1 <= ql)))
    if failed: out.append(('fail-only-when-full', z3.And(len(L) == mx, w + 1 > ql)))
    return out
  return body

jobs = []
for a in range(0, 2):
  for b in range(1, 3):
    for w in range(0, 3):
      for dead in ([()] + [(0,)] * (w >= 1) + [(0, 1)] * (w >= 2)):
        jobs.append(('release a=%d b=%d w=%d dead=%s' % (a, b, w, dead), step_release(a, b, w, dead)))
for a in range(0, 3):
  for b in range(0, 3):
    for w in range(0, 2):
      for dc in ([()] + [(0,)] * (a >= 1)):
        jobs.append(('arrive a=%d b=%d w=%d deadcached=%s' % (a, b, w, dc), step_arrive(a, b, w, dc)))
t = time.time(); P = Q = 0; bad = []
for name, body in jobs:
  try:
    p, q, f = pe.explore(body)
  except RuntimeError as e:
    if 'infeasible' in str(e): continue
    raise
  P += p; Q += q
  for n, m, tr in f[:1]: bad.append((name, n, {str(d): m[d] for d in m.decls()}))
print('jobs', len(jobs), 'paths', P, 'queries', Q, '%.1fs' % (time.time() - t))
for b in bad[:8]: print('FAIL', b)
