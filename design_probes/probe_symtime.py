import sys, time as _time
import z3
import probe_engine as pe
from probe_engine import SymBool, Engine
import gevent, gevent.hub
import time, math

class SymReal:
  def __init__(self, e): self.e = e
  @staticmethod
  def lift(x):
    if isinstance(x, SymReal): return x.e
    if isinstance(x, (int, float)): return z3.RealVal(repr(x)) if isinstance(x,float) else z3.RealVal(x)
    raise TypeError(type(x))
  def __add__(s,o): return SymReal(s.e + SymReal.lift(o))
  __radd__=__add__
  def __sub__(s,o): return SymReal(s.e - SymReal.lift(o))
  def __rsub__(s,o): return SymReal(SymReal.lift(o) - s.e)
  def __neg__(s): return SymReal(-s.e)
  def __lt__(s,o): return SymBool(s.e < SymReal.lift(o))
  def __le__(s,o): return SymBool(s.e <= SymReal.lift(o))
  def __gt__(s,o): return SymBool(s.e > SymReal.lift(o))
  def __ge__(s,o): return SymBool(s.e >= SymReal.lift(o))
  def __eq__(s,o): return SymBool(s.e == SymReal.lift(o))
  def __ne__(s,o): return SymBool(s.e != SymReal.lift(o))
  def __bool__(s): return pe.ENG.decide(s.e != 0)
  __hash__=None

loop = gevent.get_hub().loop
time.time = lambda: loop.now()
from scales import timer_queue
from scales.timer_queue import TimerQueue

# stub the rounding arithmetic at module-global level: float() and math.ceil on symbolic reals
class _Math:
  @staticmethod
  def ceil(x):
    if isinstance(x, SymReal):
      k = z3.FreshInt('ceil')
      pe.ENG.solver.add(z3.ToReal(k) >= x.e, z3.ToReal(k) - 1 < x.e)
      return SymIntR(k)
    return math.ceil(x)
class SymIntR(SymReal):
  def __init__(s, k): s.k=k; s.e=z3.ToReal(k)
  def __mul__(s,o): return SymReal(s.e * SymReal.lift(o))
  def __int__(s): raise TypeError
def _float(x): return x if isinstance(x, SymReal) else float(x)
def _int(x): return x if isinstance(x, SymReal) else int(x)
SymReal.__truediv__ = lambda s,o: SymReal(s.e / SymReal.lift(o))
timer_queue.math = _Math; timer_queue.float = _float; timer_queue.int = _int

def body():
  loop.reset(SymReal(z3.RealVal(1000)))
  S = pe.ENG.solver
  d1, d2 = z3.Real('d1'), z3.Real('d2')
  S.add(d1 >= 999, d1 <= 1003, d2 >= 999, d2 <= 1003)
  tq = TimerQueue(time_source=time.time, resolution=0.01)
  log = []
  tq.Schedule(SymReal(d1), lambda: log.append((1, time.time())))
  gevent.sleep(SymReal(z3.Real('gap')) ); S.add(z3.Real('gap')>=0, z3.Real('gap')<=2)
  tq.Schedule(SymReal(d2), lambda: log.append((2, time.time())))
  gevent.sleep(10)
  tq._worker.kill()
  out = [('ran-both', z3.BoolVal(len(log)==2))]
  for who, t in log:
    d = d1 if who==1 else d2
    out.append(('not-early-%d'%who, SymReal.lift(t) >= d))
  return out

t0=_time.perf_counter()
p,q,f = pe.explore(body)
print('paths',p,'queries',q,'fails',[(n,m) for n,m,_ in f][:2], '%.2fs'%(_time.perf_counter()-t0))
