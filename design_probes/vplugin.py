import gevent, time
_loop = gevent.get_hub().loop
time.time = lambda: _loop.now()
