"""Throwaway: real Thrift + ThriftMux stacks from the public builders on the virtual loop with a fake gsocket peer."""
import sys, struct, logging
sys.path.insert(0, '/repo')
logging.disable(logging.CRITICAL)
import gevent, gevent.event, gevent.queue
import time
loop = gevent.get_hub().loop
time.time = lambda: loop.now()
import scales.scales_socket as ss
from test.scales.thrift.gen_py.hello import Hello
from thrift.protocol.TBinaryProtocol import TBinaryProtocol
from thrift.transport.TTransport import TMemoryBuffer

LOG = []
class Handler:
  def hi(self, s): return 'echo:' + s
PROC = Hello.Processor(Handler())

def thrift_reply(payload):
  itr = TMemoryBuffer(payload); otr = TMemoryBuffer()
  PROC.process(TBinaryProtocol(itr), TBinaryProtocol(otr))
  return otr.getvalue()

class FakeGSocket:
  """peer: framed thrift echo server with a per-request delay"""
  delay = 0.25
  mux = False
  def __init__(self, family, typ): self.rx = gevent.queue.Queue(); self.buf = b''; self.closed = False; self.inbuf=b''
  def connect(self, addr): gevent.sleep(0.1); LOG.append(('connect', time.time(), addr))
  def setsockopt(self, *a): pass
  def close(self): self.closed = True; self.rx.put(b'')
  def sendall(self, data):
    LOG.append(('tx', time.time(), len(data)))
    self.inbuf += bytes(data)
    while len(self.inbuf) >= 4:
      n, = struct.unpack('!i', self.inbuf[:4])
      if len(self.inbuf) < 4 + n: break
      frame, self.inbuf = self.inbuf[4:4+n], self.inbuf[4+n:]
      gevent.spawn_later(self.delay, self._serve, frame)
  def _serve(self, frame):
    if self.mux:
      typ, = struct.unpack('!b', frame[:1]); tag = frame[1:4]
      if typ == 65: out = struct.pack('!b', -65) + tag
      elif typ == 2:
        # Tdispatch: contexts, dst, dtab, thrift
        off = 4; nctx, = struct.unpack('!h', frame[off:off+2]); off += 2
        for _ in range(nctx):
          for _ in range(2):
            l, = struct.unpack('!h', frame[off:off+2]); off += 2 + l
        l, = struct.unpack('!h', frame[off:off+2]); off += 2 + l
        nd, = struct.unpack('!h', frame[off:off+2]); off += 2
        body = thrift_reply(frame[off:])
        out = struct.pack('!b', -2) + tag + struct.pack('!bh', 0, 0) + body
      else: return
    else:
      out = thrift_reply(frame)
    self.rx.put(struct.pack('!i', len(out)) + out)
  def recv_into(self, view, sz):
    while not self.buf:
      self.buf = self.rx.get()
      if self.buf == b'': return 0
    n = min(sz, len(self.buf), 3)   # dribble 3 bytes at a time
    view[:n] = self.buf[:n]; self.buf = self.buf[n:]
    return n
  def recv(self, sz):
    b = bytearray(sz); n = self.recv_into(memoryview(b), sz); return bytes(b[:n])
  def send(self, data): self.sendall(data); return len(data)

class FakeSocketMod:
  error = OSError; AF_UNSPEC = 0; SOCK_STREAM = 1; AI_PASSIVE = 1; AI_ADDRCONFIG = 2
  @staticmethod
  def getaddrinfo(host, port, *a): return [(2, 1, 6, '', (host, port))]
ss.gsocket = FakeGSocket; ss.socket = FakeSocketMod

from scales.thrift import Thrift
from scales.thriftmux import ThriftMux
import scales.thrift.builder, scales.thriftmux.builder
t0 = time.time()
c = Thrift.NewClient(Hello.Iface, 'tcp://a:1,b:2', timeout=5)
print('thrift open at', time.time()-t0)
print(c.hi('x1'), time.time()-t0)
ar1 = c.hi_async('x2'); ar2 = c.hi_async('x3')
print(ar1.get(), ar2.get(), time.time()-t0)
FakeGSocket.delay = 9
try: c.hi('late')
except Exception as e: print(type(e).__name__, time.time()-t0)
FakeGSocket.delay = 0.25
for _ in range(3):
  try: print(c.hi('after'), time.time()-t0); break
  except Exception as e: print('after ->', type(e).__name__, str(e).splitlines()[-2][:80], time.time()-t0); gevent.sleep(0.05)
FakeGSocket.mux = True
m = ThriftMux.NewClient(Hello.Iface, 'tcp://a:1', timeout=5)
print('mux', m.hi('m1'), time.time()-t0)
ars = [m.hi_async('m%d'%i) for i in range(3)]
print([a.get() for a in ars], time.time()-t0)
print(len(LOG), 'io events')
