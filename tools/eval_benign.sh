#!/bin/sh
# usage: tools/eval_benign.sh <dir with patch.diff>  — applies a behaviour-preserving refactor to /repo, runs every quick check
# (no evidence written), undoes it.  Expected: no VIOLATION anywhere.
d="$1"
git -C /repo diff --quiet || { echo "/repo dirty"; exit 3; }
git -C /repo apply "$d/patch.diff" || exit 3
t=$(cd /repo && /venv/bin/python -m pytest -q -p no:cacheprovider test/scales 2>&1 | tail -1)
echo "BENIGN $(basename $d): tests [$t]; $(git -C /repo diff --stat | tail -1)"
NOEVIDENCE=1 /verif/run_all.sh quick 2>&1 | grep -a -v "rc=0" 
git -C /repo checkout -- .
echo "BENIGN $(basename $d): done"
