#!/bin/sh
# usage: tools/with_reverted.sh <repo-commit> <command...>   — runs the command with that /repo commit reverted in the working tree
c="$1"; shift
git -C /repo diff --quiet || { echo "/repo working tree not clean"; exit 3; }
git -C /repo show "$c" | git -C /repo apply -R || exit 3
"$@"; rc=$?
git -C /repo checkout -- .
exit $rc
