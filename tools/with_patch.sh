#!/bin/sh
# usage: tools/with_patch.sh <patch.diff> <command...>   — runs the command with the patch applied to /repo's working tree, then undoes it
p="$1"; shift
git -C /repo diff --quiet || { echo "/repo working tree not clean"; exit 3; }
git -C /repo apply "$p" || exit 3
"$@"; rc=$?
git -C /repo checkout -- .
exit $rc
