#!/usr/bin/env python3
"""Regenerates the generated tables of DESIGN.md section 11 (between BEGIN/END markers) from known_findings.json,
seeded/*/meta.json and evidence/*.json."""
import json, os, glob, re, subprocess
ROOT = os.path.dirname(os.path.dirname(os.path.abspath(__file__)))
def block(name, text, s):
  a = '<!-- BEGIN:%s -->' % name; b = '<!-- END:%s -->' % name
  i = s.index(a) + len(a); j = s.index(b)
  return s[:i] + '\n' + text.rstrip() + '\n' + s[j:]
kf = json.load(open(os.path.join(ROOT, 'known_findings.json')))['findings']
rows = ['| id | property | status | /repo commit | what failed |', '|---|---|---|---|---|']
for f in kf:
  what = f.get('line', f.get('description', ''))
  what = re.sub(r'^fixed: property=\S+ \S+ ', '', what)
  rows.append('| %s | %s | %s | %s | %s |' % (f['id'], f['property'], f['status'], f.get('commit', '-'), what.replace('|', '/')))
fixes = '\n'.join(rows)
rows = ['| seed | aimed at | what the change is / needs | caught by (quick tier) | missed by |', '|---|---|---|---|---|']
for d in sorted(glob.glob(os.path.join(ROOT, 'seeded', '*'))):
  mp = os.path.join(d, 'meta.json')
  if not os.path.exists(mp): continue
  m = json.load(open(mp))
  first = [l for l in m.get('needs_to_manifest', '').splitlines() if l.strip() and not l.startswith('#')]
  desc = (m.get('summary') or (first[0] if first else ''))[:230].replace('|', '/')
  caught = ', '.join(c['check'] for c in m['checks'] if c['detected']) or '-'
  missed = ', '.join('%s(rc=%d)' % (c['check'], c['exit_code']) for c in m['checks'] if not c['detected']) or '-'
  rows.append('| %s | %s | %s | %s | %s |' % (m['name'], m['property'], desc, caught, missed))
seeds = '\n'.join(rows)
rows = ['| id | jobs | feasible paths | assertions proved | solver queries | wall (s) | tier |', '|---|---|---|---|---|---|---|']
for f in sorted(glob.glob(os.path.join(ROOT, 'evidence', 'C*.json'))):
  e = json.load(open(f)); c = e['coverage']
  rows.append('| %s | %s | %s | %s/%s | %s | %s | %s |' % (e['property_id'], c.get('jobs'), c['evaluations'], c['discharged'], c['obligations'], c['queries']['total'], e['wall_s'], e['tier']))
ev = '\n'.join(rows)
p = os.path.join(ROOT, 'DESIGN.md'); s = open(p).read()
s = block('fixes', fixes, s); s = block('seeds', seeds, s); s = block('evidence', ev, s)
open(p, 'w').write(s)
print('DESIGN.md tables regenerated')
