#!/usr/bin/env python3
"""usage: tools/keep_module_seed.py <name> <dir with patch.diff demo.py notes.md>
Confirms a module-oriented seeded change (tests pass with it, demo fails with it / passes without) and runs EVERY quick
check against it; stores it under /verif/seeded/<name>/."""
import sys, os, subprocess, json, shutil, re
name, src = sys.argv[1:3]
root = os.path.dirname(os.path.dirname(os.path.abspath(__file__)))
manifest = json.load(open(os.path.join(root, 'MANIFEST.json')))
ids = [c['property_id'] for c in manifest['checks']]
out = subprocess.run([os.path.join(root, 'tools', 'eval_seed.sh'), ids[0], src, 'quick'] + ids[1:], capture_output=True, text=True).stdout
m = re.search(r'tests-with-change: \[(.*?)\]\s+demo-without-change rc=(\d+)\s+demo-with-change rc=(\d+)', out)
checks = re.findall(r'check (C\d+) tier=(\w+) rc=(\d+)', out)
confirmed = bool(m and '52 passed' in m.group(1) and m.group(2) == '0' and m.group(3) != '0')
dst = os.path.join(root, 'seeded', name); os.makedirs(dst, exist_ok=True)
for f in ('patch.diff', 'demo.py', 'notes.md'):
  if os.path.exists(os.path.join(src, f)): shutil.copy(os.path.join(src, f), os.path.join(dst, f))
notes = open(os.path.join(src, 'notes.md')).read() if os.path.exists(os.path.join(src, 'notes.md')) else ''
pm = re.search(r'\bC(\d\d)\b', notes)
meta = dict(name=name, property=('C' + pm.group(1)) if pm else '?', source='independent sub-agent given all property texts and a module to change',
            confirmed=confirmed, existing_tests_with_change=m.group(1) if m else None,
            demo_rc_without_change=int(m.group(2)) if m else None, demo_rc_with_change=int(m.group(3)) if m else None,
            needs_to_manifest=notes.strip()[:1500], ran=['tools/keep_module_seed.py %s %s (every quick check)' % (name, src)],
            checks=[dict(check=c, tier=t, exit_code=int(rc), detected=(rc == '1')) for c, t, rc in checks],
            failing_checks=[l.strip()[:200] for l in out.splitlines() if 'failing check' in l][:6])
# keep the table readable: only list checks that reacted (rc != 0)
meta['checks_all_rc'] = dict((c['check'], c['exit_code']) for c in meta['checks'])
meta['checks'] = [c for c in meta['checks'] if c['exit_code'] != 0] or [dict(check='(none)', tier='quick', exit_code=0, detected=False)]
json.dump(meta, open(os.path.join(dst, 'meta.json'), 'w'), indent=1)
print('kept' if confirmed else 'NOT CONFIRMED', name, 'aimed at', meta['property'], [(c['check'], c['exit_code']) for c in meta['checks']])
