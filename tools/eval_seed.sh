#!/bin/sh
# usage: tools/eval_seed.sh <property id> <dir with patch.diff + demo.py> [tier] [extra check ids...]
# 1. confirms the seeded change in a scratch worktree: existing tests pass, demo fails with the change, demo passes without;
# 2. applies it to /repo's working tree, runs our check(s), and undoes it.
id="$1"; dir="$2"; tier="${3:-quick}"; shift; shift; shift 2>/dev/null
others="$@"
W=/tmp/evalwt_$$
git -C /repo worktree add -q --detach $W HEAD || exit 3
trap 'git -C /repo worktree remove --force $W >/dev/null 2>&1' EXIT
cp "$dir/demo.py" $W/_seed_demo.py
run_demo() { (cd $W && if grep -q "^def test_\|^  def test_\|^    def test_" _seed_demo.py; then timeout 120 /venv/bin/python -m pytest -q -p no:cacheprovider _seed_demo.py; else timeout 120 /venv/bin/python _seed_demo.py; fi) >/tmp/evalwt_demo_$$.log 2>&1; echo $?; }
base_demo=$(run_demo)
git -C $W apply "$dir/patch.diff" || { echo "SEED $id: patch does not apply"; exit 3; }
tests=$(cd $W && /venv/bin/python -m pytest -q -p no:cacheprovider test/scales 2>&1 | tail -1)
seeded_demo=$(run_demo)
echo "SEED $id: tests-with-change: [$tests]  demo-without-change rc=$base_demo  demo-with-change rc=$seeded_demo"
git -C /repo diff --quiet || { echo "/repo dirty"; exit 3; }
git -C /repo apply "$dir/patch.diff" || exit 3
for c in $id $others; do
  out=$(/verif/check $c --tier $tier --no-evidence 2>&1); rc=$?
  echo "SEED $id: check $c tier=$tier rc=$rc $(echo "$out" | grep -E 'status=' | tail -1 | sed 's/.*paths=/paths=/')"
  echo "$out" | grep -E "failing check" | head -3 | cut -c1-220
done
git -C /repo checkout -- .
