#!/usr/bin/env python3
"""usage: tools/keep_seed.py <name> <property id> <dir with patch.diff demo.py notes.md> [tier] [extra checks...]
Confirms the seeded change (tools/eval_seed.sh) and stores it under /verif/seeded/<name>/ with meta.json."""
import sys, os, subprocess, json, shutil, re
name, pid, src = sys.argv[1:4]
tier = sys.argv[4] if len(sys.argv) > 4 else 'quick'
extra = sys.argv[5:]
root = os.path.dirname(os.path.dirname(os.path.abspath(__file__)))
out = subprocess.run([os.path.join(root, 'tools', 'eval_seed.sh'), pid, src, tier] + extra, capture_output=True, text=True).stdout
print(out)
m = re.search(r'tests-with-change: \[(.*?)\]\s+demo-without-change rc=(\d+)\s+demo-with-change rc=(\d+)', out)
checks = re.findall(r'check (C\d+) tier=(\w+) rc=(\d+)', out)
confirmed = bool(m and '52 passed' in m.group(1) and m.group(2) == '0' and m.group(3) != '0')
dst = os.path.join(root, 'seeded', name); os.makedirs(dst, exist_ok=True)
for f in ('patch.diff', 'demo.py', 'notes.md'):
  if os.path.exists(os.path.join(src, f)): shutil.copy(os.path.join(src, f), os.path.join(dst, f))
notes = open(os.path.join(src, 'notes.md')).read() if os.path.exists(os.path.join(src, 'notes.md')) else ''
meta = dict(name=name, property=pid, source='independent sub-agent given only the property text and a scratch worktree',
            confirmed=confirmed,
            existing_tests_with_change=m.group(1) if m else None,
            demo_rc_without_change=int(m.group(2)) if m else None, demo_rc_with_change=int(m.group(3)) if m else None,
            needs_to_manifest=notes.strip()[:1500],
            ran=['tools/eval_seed.sh %s %s %s %s' % (pid, src, tier, ' '.join(extra))],
            checks=[dict(check=c, tier=t, exit_code=int(rc), detected=(rc == '1')) for c, t, rc in checks],
            failing_checks=[l.strip()[:200] for l in out.splitlines() if 'failing check' in l][:4])
json.dump(meta, open(os.path.join(dst, 'meta.json'), 'w'), indent=1)
print('kept' if confirmed else 'NOT CONFIRMED', name, [(c['check'], c['detected']) for c in meta['checks']])
