#!/bin/sh
cd "$(dirname "$0")" && ./bootstrap.sh && GEVENT_LOOP=symex.vloop.VLoop PYTHONHASHSEED=0 PYTHONPATH="$(pwd)" PYTHONDONTWRITEBYTECODE=1 .venv/bin/python tools_manifest.py && \
python3-vt -c "
import json,jsonschema,glob
jsonschema.validate(json.load(open('MANIFEST.json')), json.load(open('/root/.vp/MANIFEST.schema.json')))
for f in glob.glob('evidence/*.json'): jsonschema.validate(json.load(open(f)), json.load(open('/root/.vp/EVIDENCE.schema.json')))
print('schemas ok')"
