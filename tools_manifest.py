#!/usr/bin/env python3
"""Regenerates MANIFEST.json from the harness modules' INFO blocks (run with ./mk_manifest.sh)."""
import json, os, sys, importlib, glob
ROOT = os.path.dirname(os.path.abspath(__file__))
sys.path.insert(0, ROOT)
NA = json.load(open(os.path.join(ROOT, 'not_applicable.json')))
props = [json.loads(l) for l in open(os.path.join(ROOT, 'properties.jsonl'))]
checks = []
claimed = []
for p in props:
  pid = p['id']
  path = os.path.join(ROOT, 'harness', pid.lower() + '.py')
  if not os.path.exists(path) or pid in NA:
    continue
  mod = importlib.import_module('harness.' + pid.lower())
  info = mod.INFO
  claimed.append(pid)
  b = info.get('bounds', {})
  text = ('Bounded symbolic execution of the real code, every branch and assertion decided by z3 (holds for ALL values within '
          'the bounds, not sampled; not a proof beyond them). ' + info['explanation'] +
          ' Bounds quick: %s. Bounds thorough: %s.' % (b.get('quick'), b.get('thorough')))
  note = ('Trusted base: z3; the proxy-value semantics of symex/values.py (every counterexample is replayed concretely on the real code before it is reported); '
          'stubs: ' + '; '.join(info.get('stubs', [])) + '. Assumptions: ' + '; '.join(info.get('assumptions', [])) +
          '. Outside the claim: ' + '; '.join(info.get('outside', [])) + '.')
  checks.append(dict(
    property_id=pid,
    quick_cmd='./check %s --tier quick' % pid,
    thorough_cmd='./check %s --tier thorough' % pid,
    evidence_file='evidence/%s.json' % pid,
    replay_cmd_template='./check --replay {path}',
    engine='symex',
    level_claimed=dict(category='other', text=text, design_ref='DESIGN.md section 4 (%s)' % pid),
    level_note=note,
    technique=info.get('technique', 'solver-based: dynamic symbolic execution of the real Python code with z3 proxy values (inputs, times, '
                       'fault choices symbolic), assertions decided by SMT within stated bounds, counterexamples replayed concretely')))
m = dict(
  version=1,
  setup_cmd='./bootstrap.sh && ./selftest.sh',
  hooks=dict(guard='SCALES_VERIF', enable='unused: no hook in /repo is needed; every stub enters through a module global, a constructor argument or GEVENT_LOOP',
             baseline_off_cmd='cd /repo && /venv/bin/python -m pytest -ra -q -p no:cacheprovider --timeout=900 --continue-on-collection-errors test/scales',
             source_commits=[], add_only=True),
  engines=[dict(name='symex', path='symex/', serves_properties=claimed,
                kind_free_text='dynamic symbolic execution of the real scales code with z3 proxy values (SymInt/SymReal/SymBool/SymStr/SymBytes), '
                               're-execution DFS with an incremental solver, real gevent on a virtual-time loop with symbolic timer due-times; '
                               'counterexamples replayed concretely (real ints, exact rationals)')],
  checks=checks,
  not_applicable=[dict(property_id=p['id'], reason=NA.get(p['id'], 'check not built yet in this round (work in progress)'))
                  for p in props if p['id'] not in claimed],
  notes='Solver-based checking of the real code: see DESIGN.md. Exit 0 held / 1 VIOLATION / 2 inconclusive or harness error (never a pass).')
json.dump(m, open(os.path.join(ROOT, 'MANIFEST.json'), 'w'), indent=1)
print('MANIFEST.json: %d checks (%s), %d not applicable' % (len(checks), ' '.join(claimed), len(m['not_applicable'])))
