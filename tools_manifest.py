#!/usr/bin/env python3
"""Regenerates MANIFEST.json from the harness modules (single source of truth for level notes)."""
import json, os, sys, importlib
ROOT = os.path.dirname(os.path.abspath(__file__))
sys.path.insert(0, ROOT)
CHECKS = json.load(open(os.path.join(ROOT, 'manifest_src.json')))
m = dict(
  version=1,
  setup_cmd='./bootstrap.sh && ./selftest.sh',
  hooks=dict(guard='SCALES_VERIF', enable='unused: no hook in /repo is needed; every stub enters through a module global, a constructor argument or GEVENT_LOOP',
             baseline_off_cmd='cd /repo && /venv/bin/python -m pytest -ra -q -p no:cacheprovider --timeout=900 --continue-on-collection-errors test/scales',
             source_commits=[], add_only=True),
  engines=[dict(name='symex', path='symex/', serves_properties=sorted(c['property_id'] for c in CHECKS['checks']),
                kind_free_text='dynamic symbolic execution of the real scales code with z3 proxy values (SymInt/SymReal/SymBool/SymStr/SymBytes), '
                               're-execution DFS with an incremental solver, real gevent on a virtual-time loop with symbolic timer due-times; '
                               'counterexamples replayed concretely (real ints, exact rationals)')],
  checks=[], not_applicable=CHECKS['not_applicable'], notes=CHECKS.get('notes', ''))
for c in CHECKS['checks']:
  pid = c['property_id']
  m['checks'].append(dict(
    property_id=pid,
    quick_cmd='./check %s --tier quick' % pid,
    thorough_cmd='./check %s --tier thorough' % pid,
    evidence_file='evidence/%s.json' % pid,
    replay_cmd_template='./check --replay {path}',
    engine='symex',
    level_claimed=dict(category='other', text=c['text'], design_ref=c.get('design_ref', 'DESIGN.md section 4')),
    level_note=c['note'],
    technique=c.get('technique', 'bounded symbolic execution of the real code; every branch and assertion decided by z3 within stated bounds; counterexamples replayed concretely')))
json.dump(m, open(os.path.join(ROOT, 'MANIFEST.json'), 'w'), indent=1)
print('MANIFEST.json: %d checks, %d not applicable' % (len(m['checks']), len(m['not_applicable'])))
