#!/bin/sh
# Validation of the virtual-time loop model (DESIGN.md 3.1): the repository's own test-suite must
# pass unmodified on it.
set -e
cd "$(dirname "$0")"
HERE="$(pwd)"
cd /repo
GEVENT_LOOP=symex.vloop.VLoop PYTHONPATH="$HERE" PYTHONDONTWRITEBYTECODE=1 "$HERE/.venv/bin/python" -m pytest -q -p no:cacheprovider -p symex.vplugin test/scales > "$HERE/.selftest.log" 2>&1 || { tail -20 "$HERE/.selftest.log"; echo "selftest: repository tests fail on the virtual loop"; exit 1; }
tail -1 "$HERE/.selftest.log"
# differential validation of the environment models (struct, UTF-8, BytesIO, crc32 law, exact arithmetic) and of the
# scheduling order of the virtual loop against the order recorded on the real libev loop
cd "$HERE"
for s in 0 1 2; do VERIF_SEED=$s PYTHONPATH="$HERE" "$HERE/.venv/bin/python" -m symex.selfcheck > /dev/null || { echo "selftest: model validation failed (seed $s)"; exit 1; }; done
PYTHONPATH="$HERE" "$HERE/.venv/bin/python" -m symex.selfcheck loop | tail -1 || { echo "selftest: loop order differs on libev"; exit 1; }
GEVENT_LOOP=symex.vloop.VLoop PYTHONPATH="$HERE" "$HERE/.venv/bin/python" -m symex.selfcheck loop > /dev/null || { echo "selftest: loop order differs on the virtual loop"; exit 1; }
echo "selftest: models validated"
