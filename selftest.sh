#!/bin/sh
# Validation of the virtual-time loop model (DESIGN.md 3.1): the repository's own test-suite must
# pass unmodified on it.
set -e
cd "$(dirname "$0")"
HERE="$(pwd)"
cd /repo
GEVENT_LOOP=symex.vloop.VLoop PYTHONPATH="$HERE" PYTHONDONTWRITEBYTECODE=1 "$HERE/.venv/bin/python" -m pytest -q -p no:cacheprovider -p symex.vplugin test/scales > "$HERE/.selftest.log" 2>&1 || { tail -20 "$HERE/.selftest.log"; echo "selftest: repository tests fail on the virtual loop"; exit 1; }
tail -1 "$HERE/.selftest.log"
