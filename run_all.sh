#!/bin/sh
# runs every registered check of a tier in sequence; prints one line per check
tier=${1:-quick}
cd "$(dirname "$0")"
for p in $(python3 -c "import json; print(' '.join(c['property_id'] for c in json.load(open('MANIFEST.json'))['checks']))"); do
  s=$(date +%s)
  out=$(./check $p --tier $tier ${NOEVIDENCE:+--no-evidence} 2>&1); rc=$?
  echo "$p rc=$rc $(( $(date +%s) - s ))s  $(echo "$out" | grep -a -E "status=" | tail -1 | sed 's/.*paths=/paths=/')"
  echo "$out" | grep -a -E "^(VIOLATION|INCONCLUSIVE|HARNESS-ERROR|ENCODING-MISMATCH)" | head -3
done
