"""Check driver: runs the jobs of a harness module over a pool of worker processes, replays every
counterexample concretely against the real code, matches known findings, writes evidence."""
import sys, os, json, time, hashlib, importlib, traceback, argparse, fnmatch

ROOT = os.path.dirname(os.path.dirname(os.path.abspath(__file__)))
REPO = os.environ.get('VERIF_REPO', '/repo')


def load_known():
  p = os.path.join(ROOT, 'known_findings.json')
  if not os.path.exists(p): return []
  return json.load(open(p)).get('findings', [])


# ------------------------------------------------------------------------------- worker side
def _profile_functions(store):
  prefix = os.path.join(REPO, 'scales') + os.sep
  def prof(frame, event, arg):
    if event == 'call':
      co = frame.f_code
      fn = co.co_filename
      if fn.startswith(prefix) and (co.co_flags & 0x2):
        store.add('%s:%s' % (fn[len(REPO) + 1:], getattr(co, 'co_qualname', co.co_name)))
  return prof


_SNAP = {}


def _restore_module_globals():
  """every job starts from the module globals of scales / thrift.protocol as they were after import: a stub that
  one job injected into a module (struct model, BytesIO, Deadline, random, ...) never leaks into the next job that
  the same worker process runs"""
  mods = [(n, m) for n, m in list(sys.modules.items()) if m is not None and (n == 'scales' or n.startswith('scales.') or n.startswith('thrift.protocol'))]
  for n, m in mods:
    cur = vars(m)
    if n not in _SNAP:
      _SNAP[n] = dict(cur); continue
    snap = _SNAP[n]
    for k in list(cur.keys()):
      if k not in snap:
        if not k.startswith('__'): del cur[k]
      elif cur[k] is not snap[k]:
        cur[k] = snap[k]


def run_job(args):
  sys.unraisablehook = lambda *a: None
  modname, job, opts = args
  t0 = time.perf_counter()
  out = dict(job=job.get('name'), ok=False)
  try:
    import logging
    logging.disable(logging.CRITICAL)
    from symex import engine
    mod = importlib.import_module(modname)
    _restore_module_globals()
    known = [k for k in load_known() if k.get('property') == mod.PROPERTY and k.get('status') == 'known']
    body = mod.make_body(job)
    funcs = set()
    state = {'n': 0}
    def wrapped():
      # the first two paths of every job run under a profile hook that records which functions
      # of /repo were entered (evidence: functions_encoded)
      if state['n'] < 2:
        state['n'] += 1
        sys.setprofile(_profile_functions(funcs))
        try:
          body()
        finally:
          sys.setprofile(None)
      else:
        body()
    engine.KNOWN = known
    engine.JOBNAME = job.get('name', '')
    soft = tuple(getattr(mod, 'INDUCTION_PREFIXES', ()))
    E = engine.explore(wrapped, max_paths=job.get('max_paths', opts.get('max_paths', 2000000)), soft_prefixes=soft or ('\0',), shard=tuple(job['shard']) if job.get('shard') else None,
                       max_seconds=job.get('max_seconds', opts.get('max_seconds', 1500)))
    fails = []
    hard = [f for f in E.failures if not soft or not f.name.startswith(soft)]
    softf = [f for f in E.failures if soft and f.name.startswith(soft)]
    for f in (hard[:4] + softf[:2]):
      rep = replay_values(mod, job, f.name, f.model_vals)
      fails.append(dict(soft=bool(soft and f.name.startswith(soft)), check=f.name, model=f.model_vals, trace=''.join('T' if b else 'F' for b in f.trace)[:400],
                        reproduced=rep['reproduced'], replay_log=rep['log'][:40], replay_error=rep.get('error')))
    khits = []
    for name, (entry, vals) in E.known_hits.items():
      rep = replay_values(mod, job, name, vals)
      khits.append(dict(check=name, id=entry.get('id'), description=entry.get('description'), model=vals,
                        reproduced=rep['reproduced'], replay_error=rep.get('error')))
    out.update(ok=True, stats=E.stats, covers=E.covers, failures=fails, known_hits=khits,
               inconclusive=E.inconclusive[:10], samples=E.samples, functions=sorted(funcs))
  except BaseException as e:
    out['error'] = ''.join(traceback.format_exception(type(e), e, e.__traceback__))[-3000:]
  out['wall_s'] = time.perf_counter() - t0
  return out


def replay_values(mod, job, check_name, vals):
  """concrete replay on the real code: no proxies, real ints, exact rationals for time."""
  from symex import engine
  res = dict(reproduced=False, log=[])
  try:
    body = mod.make_body(job)
    E = engine.run_concrete(body, vals)
    res['log'] = [(n, bool(ok)) for n, ok in E.concrete_log]
    res['reproduced'] = any(n == check_name and not ok for n, ok in E.concrete_log)
  except BaseException as e:
    res['error'] = ''.join(traceback.format_exception(type(e), e, e.__traceback__))[-2000:]
  return res


# ------------------------------------------------------------------------------- driver side
def main(argv=None):
  ap = argparse.ArgumentParser()
  ap.add_argument('prop', nargs='?')
  ap.add_argument('--tier', default=os.environ.get('VERIF_TIER', 'quick'))
  ap.add_argument('--replay')
  ap.add_argument('--jobs', default=None, help='fnmatch pattern over job names')
  ap.add_argument('--procs', type=int, default=int(os.environ.get('VERIF_PROCS', '0')) or (os.cpu_count() or 4))
  ap.add_argument('--serial', action='store_true')
  ap.add_argument('--no-evidence', action='store_true')
  a = ap.parse_args(argv)
  seed = int(os.environ.get('VERIF_SEED', '0') or 0)
  if a.replay:
    return do_replay(a.replay)
  prop = a.prop.upper()
  tier = a.tier if a.tier in ('quick', 'thorough') else 'quick'
  modname = 'harness.%s' % prop.lower()
  t0 = time.perf_counter()
  try:
    mod = importlib.import_module(modname)
    jobs = mod.jobs(tier)
  except Exception:
    traceback.print_exc()
    print('INCONCLUSIVE property=%s reason=harness failed to load (refactored internals?)' % prop)
    return 2
  if a.jobs:
    jobs = [j for j in jobs if fnmatch.fnmatch(j['name'], a.jobs)]
  # a job may ask to be split over n workers by its first harness-level decisions
  ex = []
  for j in jobs:
    n = 1 if os.environ.get('VERIF_NOSHARD') else j.get('shards', 1)
    if n <= 1: ex.append(j); continue
    D = j.get('shard_depth', max(1, (n - 1).bit_length()))
    for i in range(n):
      jj = dict(j); jj['shard'] = [i, n, D]; jj['name'] = '%s#%d/%d' % (j['name'], i, n); jj['cost'] = j.get('cost', 1) / n
      ex.append(jj)
  jobs = ex
  jobs.sort(key=lambda j: -j.get('cost', 1))
  opts = {'max_seconds': 900 if tier == 'quick' else 7200}
  results = []
  dump_dir = None
  if tier == 'thorough' or os.environ.get('VERIF_CROSS_SOLVER'):
    import tempfile, shutil
    os.makedirs(os.path.join(ROOT, '.work'), exist_ok=True)
    dump_dir = tempfile.mkdtemp(prefix='q-%s-' % prop, dir=os.path.join(ROOT, '.work'))
    os.environ['VERIF_DUMP_QUERIES'] = dump_dir
  results = run_jobs(modname, jobs, opts, a)
  # second stage: jobs whose only failures are induction (invariant) checks are re-run in the
  # harness's follow-up mode to find the observable violation the broken invariant leads to
  if hasattr(mod, 'second_stage'):
    soft = tuple(getattr(mod, 'INDUCTION_PREFIXES', ()))
    hard_found = any(not f.get('soft') and f['reproduced'] for r in results if r.get('ok') for f in r['failures'])
    cand = [r['job'] for r in results if r.get('ok') and any(f.get('soft') for f in r['failures'])]
    if cand and not hard_found:
      byname = dict((j['name'], j) for j in jobs)
      j2 = [mod.second_stage(byname[n]) for n in cand[:32]]
      j2 = [j for j in j2 if j]
      if j2:
        jobs = jobs + j2
        results.extend(run_jobs(modname, j2, opts, a))
  cross = cross_solver(dump_dir) if dump_dir else None
  if dump_dir:
    import shutil; shutil.rmtree(dump_dir, ignore_errors=True)
  CROSS['result'] = cross
  return report(mod, prop, tier, seed, jobs, results, time.perf_counter() - t0, write=not a.no_evidence and not a.jobs, filtered=bool(a.jobs))


CROSS = {}


def cross_solver(d, limit=150, tlimit_ms=20000):
  """re-decide a sample of the assertion queries with cvc5 (independent solver); any disagreement makes the run inconclusive"""
  import subprocess, glob, shutil
  exe = shutil.which('cvc5')
  files = sorted(glob.glob(os.path.join(d, '*.smt2')))
  out = dict(solver='cvc5 binary' if exe else 'cvc5 not found', sampled=0, agree=0, disagree=0, unknown=0, disagreements=[])
  if not exe: return out
  step = max(1, len(files) // limit)
  from concurrent.futures import ThreadPoolExecutor
  def one(f):
    want = 'unsat' if f.endswith('-unsat.smt2') else 'sat'
    try:
      r = subprocess.run([exe, '--tlimit=%d' % tlimit_ms, f], capture_output=True, text=True, timeout=tlimit_ms / 1000 + 10)
      lines = r.stdout.split()
      if '(error' in r.stdout or '(error' in r.stderr: return (f, want, 'error')
      got = lines[0] if lines else 'unknown'
    except Exception:
      got = 'unknown'
    return (f, want, got)
  with ThreadPoolExecutor(max_workers=8) as ex:
    for f, want, got in ex.map(one, files[::step][:limit]):
      out['sampled'] += 1
      if got == want: out['agree'] += 1
      elif got in ('sat', 'unsat'):
        out['disagree'] += 1; out['disagreements'].append(os.path.basename(f))
      else: out['unknown'] += 1
  return out


def _worker_init():
  """worker processes die with the runner (killed by a time-out wrapper, say) instead of lingering as orphans"""
  try:
    import ctypes, signal
    ctypes.CDLL(None).prctl(1, signal.SIGKILL)      # PR_SET_PDEATHSIG
    if os.getppid() == 1: os._exit(0)
    import faulthandler
    faulthandler.register(signal.SIGUSR1, all_threads=True)      # kill -USR1 <worker> prints where it is
  except Exception:
    pass


def run_jobs(modname, jobs, opts, a):
  """runs the jobs over a pool of worker processes; a worker that dies (crash in a C extension) is
  reported as a harness error for its job instead of hanging the run"""
  results = []
  if a.serial or a.procs == 1:
    for j in jobs: results.append(run_job((modname, j, opts)))
    return results
  import multiprocessing as mp
  from concurrent.futures import ProcessPoolExecutor, as_completed
  from concurrent.futures.process import BrokenProcessPool
  pending = list(jobs)
  attempts = 0
  while pending and attempts < 3:
    attempts += 1
    ex = ProcessPoolExecutor(max_workers=min(a.procs, max(1, len(pending))), mp_context=mp.get_context('spawn'), initializer=_worker_init)
    futs = {ex.submit(run_job, (modname, j, opts)): j for j in pending}
    done_names = set()
    broken = False
    try:
      for f in as_completed(futs):
        j = futs[f]
        try:
          results.append(f.result()); done_names.add(j['name'])
        except BrokenProcessPool:
          broken = True
        except Exception as e:
          results.append(dict(job=j['name'], ok=False, error='worker failed: %r' % (e,))); done_names.add(j['name'])
    finally:
      ex.shutdown(wait=False, cancel_futures=True)
    pending = [j for j in pending if j['name'] not in done_names]
    if not broken: break
    if attempts >= 2:
      # run the survivors one per process to find the job that kills its worker
      for j in pending:
        ex1 = ProcessPoolExecutor(max_workers=1, mp_context=mp.get_context('spawn'), initializer=_worker_init)
        try:
          results.append(ex1.submit(run_job, (modname, j, opts)).result())
        except Exception as e:
          results.append(dict(job=j['name'], ok=False, error='worker process died while running this job: %r' % (e,)))
        finally:
          ex1.shutdown(wait=False, cancel_futures=True)
      pending = []
  return results


def do_replay(path):
  rec = json.load(open(path))
  mod = importlib.import_module(rec['harness'])
  import logging
  logging.disable(logging.CRITICAL)
  rep = replay_values(mod, rec['job'], rec['check'], rec['model'])
  print(json.dumps(dict(check=rec['check'], job=rec['job'].get('name'), model=rec['model'], log=rep['log'],
                        error=rep.get('error')), indent=1))
  if rep['reproduced']:
    print('REPRODUCED property=%s check=%s' % (rec['property'], rec['check']))
    return 1
  print('NOT-REPRODUCED property=%s check=%s' % (rec['property'], rec['check']))
  return 0


def report(mod, prop, tier, seed, jobs, results, wall, write=True, filtered=False):
  agg = dict(paths=0, decisions=0, q_sat=0, q_unsat=0, q_unknown=0, solver_s=0.0, checks=0, checks_unsat=0,
             checks_trivial=0, infeasible=0, nontrivial_paths=0, max_depth=0)
  covers = {}; funcs = set(); samples = []; incon = []; viol = []; known_lines = []; mismatches = []
  errors = []; induction = []
  per_job = []
  for r in results:
    if not r.get('ok'):
      errors.append('%s: %s' % (r.get('job'), r.get('error', '?'))); continue
    for k in agg:
      if k == 'max_depth': agg[k] = max(agg[k], r['stats'][k])
      else: agg[k] += r['stats'][k]
    for c, n in r['covers'].items(): covers[c] = covers.get(c, 0) + n
    funcs.update(r['functions'])
    if len(samples) < 6:
      for s in r['samples'][:1]: samples.append(dict(job=r['job'], **s))
    for x in r['inconclusive']: incon.append('%s: %s' % (r['job'], x))
    if r['stats']['paths'] and not r['stats']['nontrivial_paths'] and not getattr(mod, 'ALLOW_TRIVIAL', False):
      if r['stats']['checks'] == 0:
        incon.append('%s: vacuous job (no assertion reached on any feasible path)' % r['job'])
    per_job.append(dict(job=r['job'], paths=r['stats']['paths'], checks=r['stats']['checks'],
                        queries=r['stats']['q_sat'] + r['stats']['q_unsat'] + r['stats']['q_unknown'],
                        wall_s=round(r['wall_s'], 2)))
    jobrec = next(j for j in jobs if j['name'] == r['job'])
    for f in r['failures']:
      if f['reproduced'] and f.get('soft'):
        induction.append('%s: %s model=%s' % (r['job'], f['check'], json.dumps(f['model'])[:300]))
      elif f['reproduced']:
        viol.append((jobrec, f))
      else:
        mismatches.append('%s: %s model=%s replay_error=%s log=%s' % (r['job'], f['check'], f['model'],
                                                                       (f.get('replay_error') or '')[-400:], f['replay_log']))
    for k in r['known_hits']:
      if k['reproduced']:
        known_lines.append((k['id'], k['check'], r['job'], k['description']))
      else:
        mismatches.append('%s: known finding %s did not replay: %s' % (r['job'], k['id'], (k.get('replay_error') or '')[-300:]))
  exp = getattr(mod, 'EXPECT_COVERS', [])
  if isinstance(exp, dict): exp = exp.get(tier, [])
  for label in ([] if filtered else exp):
    if not covers.get(label):
      incon.append('cover label %r reached by no feasible path (vacuity guard)' % label)
  os.makedirs(os.path.join(ROOT, 'replays'), exist_ok=True)
  vlines = []
  seen = set()
  for jobrec, f in viol:
    key = (jobrec['name'], f['check'])
    if key in seen: continue
    seen.add(key)
    rec = dict(property=prop, harness=mod.__name__, job=jobrec, check=f['check'], model=f['model'], trace=f['trace'])
    h = hashlib.sha1(json.dumps(rec, sort_keys=True).encode()).hexdigest()[:10]
    path = os.path.join(ROOT, 'replays', '%s-%s.json' % (prop, h))
    json.dump(rec, open(path, 'w'), indent=1)
    vlines.append('VIOLATION property=%s replay=%s' % (prop, path))
    print('  failing check: %s  job: %s  model: %s' % (f['check'], jobrec['name'], json.dumps(f['model'])[:600]))
  kseen = set()
  for kid, chk, job, desc in known_lines:
    if kid in kseen: continue
    kseen.add(kid)
    print('KNOWN-FINDING: property=%s %s [%s] %s' % (prop, kid, chk, desc))
  info = getattr(mod, 'INFO', {})
  nq = agg['q_sat'] + agg['q_unsat'] + agg['q_unknown']
  if induction and not vlines:
    incon.append('induction did not close (invariant not re-established, no observable violation found): ' + induction[0])
  mv = _model_validation(seed)
  cs = CROSS.get('result')
  if cs and cs.get('disagree'): incon.append('cross-solver disagreement (z3 vs cvc5) on %s' % cs['disagreements'][:3])
  if not mv.get('ok'): incon.append('environment model validation failed: %s' % (mv,))
  status = 'violation' if vlines else ('inconclusive' if (incon or errors or mismatches) else 'held')
  ev = dict(
    property_id=prop, tier=tier, seed=seed, level='other',
    coverage=dict(
      explanation=info.get('explanation', '') + ' Every branch on a symbolic value in the real code is decided by z3 '
        '(both sides explored when both are feasible); each assertion is a query PC AND NOT(assertion); unsat on every '
        'path of an exhausted path tree = holds for all values within the bounds.',
      evaluations=agg['paths'], distinct_nontrivial=agg['nontrivial_paths'],
      rule='one evaluation = one feasible path of the real code (distinct decision vector) under symbolic inputs; '
           'non-trivial = took at least one solver decision and reached at least one assertion',
      samples=samples or [dict(note='no path sample')],
      obligations=agg['checks'], discharged=agg['checks_unsat'],
      queries=dict(sat=agg['q_sat'], unsat=agg['q_unsat'], unknown=agg['q_unknown'], total=nq),
      solver_time_s=round(agg['solver_s'], 2), decisions=agg['decisions'], max_path_depth=agg['max_depth'],
      infeasible_assumption_paths=agg['infeasible'],
      functions_encoded=sorted(funcs), bounds=info.get('bounds', {}).get(tier, info.get('bounds')),
      outside_bounds=info.get('outside', []), stubs=info.get('stubs', []),
      witnesses=covers, jobs=len(jobs), per_job=sorted(per_job, key=lambda x: -x['wall_s'])[:12],
      exhaustive=(status == 'held'), status=status,
      known_findings_reported=sorted(kseen), inconclusive=incon[:10], errors=errors[:5], encoding_mismatches=mismatches[:5],
      solver='z3 %s (python API, incremental)' % _z3v(), repo_head=_repo_head(),
      model_validation=mv, cross_solver=CROSS.get('result'),
    ),
    assumptions=info.get('assumptions', []),
    wall_s=round(wall, 2), violations=len(vlines))
  if write:
    os.makedirs(os.path.join(ROOT, 'evidence'), exist_ok=True)
    json.dump(ev, open(os.path.join(ROOT, 'evidence', '%s.json' % prop), 'w'), indent=1, default=str)
  print('%s %s tier=%s jobs=%d paths=%d checks=%d/%d queries=%d solver=%.1fs wall=%.1fs status=%s' % (
    prop, mod.__name__, tier, len(jobs), agg['paths'], agg['checks_unsat'], agg['checks'], nq, agg['solver_s'], wall, status))
  for l in vlines: print(l)
  if vlines: return 1
  if errors or incon or mismatches:
    for x in errors[:3]: print('HARNESS-ERROR', x)
    for x in incon[:5]: print('INCONCLUSIVE property=%s reason=%s' % (prop, x))
    for x in mismatches[:3]: print('ENCODING-MISMATCH property=%s %s' % (prop, x))
    return 2
  return 0


def _model_validation(seed):
  try:
    from symex import selfcheck
    out, bad = selfcheck.run_all(seed)
    out['ok'] = not bad
    return out
  except Exception as e:
    return {'ok': False, 'error': repr(e)}


def _z3v():
  try:
    import z3; return z3.get_version_string()
  except Exception: return '?'


def _repo_head():
  try:
    import subprocess
    h = subprocess.run(['git', '-C', REPO, 'rev-parse', '--short', 'HEAD'], capture_output=True, text=True).stdout.strip()
    d = subprocess.run(['git', '-C', REPO, 'status', '--porcelain', '--', 'scales'], capture_output=True, text=True).stdout.strip()
    return h + ('+dirty' if d else '')
  except Exception: return '?'


if __name__ == '__main__':
  sys.exit(main())
