"""A pure-Python virtual-time event loop for the real gevent (GEVENT_LOOP=symex.vloop.VLoop).

FIFO callback queue; timers fire in order of (due time, registration sequence); the clock only
advances when the callback queue is empty and then jumps to the next due time.  Due times may be
symbolic reals (symex.values.SymReal) or exact rationals: every comparison between them is then a
solver decision, which is how "does the reply arrive before the timeout timer" becomes a question
for z3 instead of a sampled schedule.  All gevent primitives on top (Greenlet, Event, AsyncResult,
Queue, Timeout, sleep) are the real compiled ones.
"""
import itertools, sys, traceback


class _CB(object):
  __slots__ = ('callback', 'args')
  def __init__(self, cb, args): self.callback = cb; self.args = args
  def stop(self): self.callback = None; self.args = None
  close = stop
  @property
  def pending(self): return self.callback is not None
  def __bool__(self): return self.args is not None


class _Watcher(object):
  def __init__(self, loop, ref=True, priority=None):
    self.loop = loop; self.ref = ref; self.priority = priority
    self.callback = None; self.args = None; self._active = False
  def start(self, callback, *args, **kw):
    self.callback = callback; self.args = args; self._active = True; self._start(**kw)
  def _start(self, **kw): pass
  def stop(self):
    self._active = False; self.callback = None; self.args = None; self._stop()
  def _stop(self): pass
  def close(self): self.stop()
  @property
  def active(self): return self._active
  @property
  def pending(self): return False
  def __enter__(self): return self
  def __exit__(self, *a): self.close()


class _Timer(_Watcher):
  def __init__(self, loop, after, repeat=0.0, ref=True, priority=None):
    _Watcher.__init__(self, loop, ref, priority)
    self.after = after
    self._entry = None
  def _start(self, update=False, **kw):
    self.loop._add_timer(self)
  def _stop(self):
    self.loop._del_timer(self)
  def again(self, callback, *args, **kw):
    self.stop(); self.start(callback, *args)


MAX_TIMER_EVENTS = 100000


class VLoop(object):
  default = True
  approx_timer_resolution = 0.0
  MAXPRI = 2; MINPRI = -2

  def __init__(self, flags=None, default=None):
    self._now = 1000.0
    self._callbacks = []
    self._timers = []   # entries [due, seq, timer]
    self._seq = itertools.count()
    self.error_handler = None
    self.errors = []
    self.quiet = False

  # -- time
  def now(self): return self._now
  def update_now(self): pass

  # -- callbacks
  def run_callback(self, func, *args):
    cb = _CB(func, args); self._callbacks.append(cb); return cb
  run_callback_threadsafe = run_callback

  # -- watchers
  def timer(self, after, repeat=0.0, ref=True, priority=None):
    return _Timer(self, after, repeat, ref, priority)
  def _add_timer(self, t):
    if t._entry is not None: self._del_timer(t)
    t._entry = [self._now + t.after, next(self._seq), t]
    self._timers.append(t._entry)
  def _del_timer(self, t):
    e = t._entry
    if e is not None:
      for i, x in enumerate(self._timers):
        if x is e:
          del self._timers[i]; break
    t._entry = None
  def async_(self, ref=True, priority=None): return _Watcher(self, ref, priority)
  def fork(self, ref=True, priority=None): return _Watcher(self, ref, priority)
  def prepare(self, ref=True, priority=None): return _Watcher(self, ref, priority)
  def check(self, ref=True, priority=None): return _Watcher(self, ref, priority)
  def idle(self, ref=True, priority=None): return _Watcher(self, ref, priority)
  def child(self, *a, **k): return _Watcher(self)
  def io(self, fd, events, ref=True, priority=None): raise NotImplementedError('no real I/O in the virtual loop')
  def signal(self, *a, **k): return _Watcher(self)
  def closing_fd(self, fd): return False
  def destroy(self): pass
  def reinit(self): pass
  def _format(self): return 'vloop'
  def handle_error(self, context, t, v, tb):
    if self.error_handler is not None:
      self.error_handler.handle_error(context, t, v, tb)
    else:
      traceback.print_exception(t, v, tb)

  # -- run
  def _run_callbacks(self):
    while self._callbacks:
      cbs, self._callbacks = self._callbacks, []
      for cb in cbs:
        f, a = cb.callback, cb.args
        if f is None: continue
        cb.callback = None
        try:
          f(*a)
        except BaseException:
          self.handle_error(cb, *sys.exc_info())
        finally:
          cb.args = None

  def _next_timer(self):
    best = None
    for e in self._timers:
      if best is None:
        best = e; continue
      # strict (due, seq) order; a comparison of symbolic due times is a solver decision
      if e[0] < best[0]:
        best = e
      elif e[1] < best[1] and not (best[0] < e[0]):
        best = e
    return best

  def run(self, nowait=False, once=False):
    while True:
      self._run_callbacks()
      live = [e for e in self._timers if e[2].ref]
      if not live:
        return False
      e = self._next_timer()
      self._del_timer(e[2])
      due, _, t = e
      self._fired = getattr(self, '_fired', 0) + 1
      if self._fired > MAX_TIMER_EVENTS:
        # the path never ends: typically the main greenlet waits for something that never happens while a periodic
        # timer keeps virtual time running.  Give the path up (inconclusive) instead of spinning for ever.
        self._fired = 0
        self._give_up()
      if due > self._now: self._now = due
      cb, args = t.callback, t.args
      t._active = False
      if cb is not None:
        try:
          cb(*args)
        except BaseException:
          self.handle_error(t, *sys.exc_info())
      if once: return True

  def _give_up(self):
    import gevent
    from . import engine as _eng
    E = _eng.ENG
    main = gevent.get_hub().parent
    if E is not None and E.mode == 'sym':
      E.inconclusive.append('virtual loop fired %d timers in one path: the harness is blocked for ever (refactored internals?)' % MAX_TIMER_EVENTS)
      E.aborted = True
      main.throw(_eng.PathLimit())
    else:
      main.throw(RuntimeError('virtual loop fired %d timers in one path: the harness is blocked for ever' % MAX_TIMER_EVENTS))

  def reset(self, now):
    self._fired = 0
    self._now = now; self._callbacks = []; self._timers = []
    self._seq = itertools.count(); self.errors = []

  def idle_state(self):
    return not self._callbacks and not self._timers
