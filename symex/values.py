"""Proxy values wrapping z3 terms.  Python's duck typing carries them through the real scales
code; every branch on one of them (`__bool__`) is a solver decision."""
import sys, math
from fractions import Fraction
import z3
from . import engine as _eng


def _E():
  return _eng.ENG


# ------------------------------------------------------------------ exact rationals (replay)
class Exact(Fraction):
  """Concrete time value used when a counterexample is replayed: exact rational arithmetic in
  which a float constant of the code (0.01, 0.1, ...) means the real number that float is (its exact
  binary value), exactly as the symbolic encoding reads it (assumption A2: operations are exact)."""
  __slots__ = ()

  @staticmethod
  def conv(x):
    if isinstance(x, Exact): return x
    if isinstance(x, float):
      if x == float('inf') or x == float('-inf') or x != x: return x
      return Exact(Fraction(x))
    if isinstance(x, (int, Fraction)): return Exact(x)
    return NotImplemented

  def _bin(self, o, f):
    o = Exact.conv(o)
    if o is NotImplemented: return NotImplemented
    if isinstance(o, float): return f(float(self), o)
    return Exact(f(Fraction(self), Fraction(o)))

  def __add__(self, o): return self._bin(o, lambda a, b: a + b)
  __radd__ = __add__
  def __sub__(self, o): return self._bin(o, lambda a, b: a - b)
  def __rsub__(self, o): return self._bin(o, lambda a, b: b - a)
  def __mul__(self, o): return self._bin(o, lambda a, b: a * b)
  __rmul__ = __mul__
  def __truediv__(self, o): return self._bin(o, lambda a, b: a / b)
  def __rtruediv__(self, o): return self._bin(o, lambda a, b: b / a)
  def __neg__(self): return Exact(-Fraction(self))
  def __abs__(self): return Exact(abs(Fraction(self)))

  def _cmp(self, o, f):
    o = Exact.conv(o)
    if o is NotImplemented: return NotImplemented
    if isinstance(o, float): return f(float(self), o)
    return f(Fraction(self), Fraction(o))
  def __lt__(self, o): return self._cmp(o, lambda a, b: a < b)
  def __le__(self, o): return self._cmp(o, lambda a, b: a <= b)
  def __gt__(self, o): return self._cmp(o, lambda a, b: a > b)
  def __ge__(self, o): return self._cmp(o, lambda a, b: a >= b)
  def __eq__(self, o):
    r = self._cmp(o, lambda a, b: a == b)
    return False if r is NotImplemented else r
  def __ne__(self, o): return not self.__eq__(o)
  __hash__ = Fraction.__hash__
  def __repr__(self): return 'Exact(%s)' % Fraction.__str__(self)
  __str__ = __repr__


# ------------------------------------------------------------------ booleans
class SymBool(object):
  __slots__ = ('e',)
  def __init__(self, e): self.e = e
  def __bool__(self): return _E().decide(self.e)
  def __and__(self, o): return SymBool(z3.And(self.e, lift_bool(o)))
  __rand__ = __and__
  def __or__(self, o): return SymBool(z3.Or(self.e, lift_bool(o)))
  __ror__ = __or__
  def __invert__(self): return SymBool(z3.Not(self.e))
  def __eq__(self, o): return SymBool(self.e == lift_bool(o))
  def __ne__(self, o): return SymBool(self.e != lift_bool(o))
  __hash__ = None
  def __repr__(self): return 'SymBool(%s)' % self.e


def lift_bool(x):
  if isinstance(x, SymBool): return x.e
  if isinstance(x, (bool, int)): return z3.BoolVal(bool(x))
  if isinstance(x, z3.BoolRef): return x
  raise TypeError('lift_bool %r' % type(x))


def sand(*xs):
  xs = [x for x in xs]
  if all(isinstance(x, (bool, int)) for x in xs): return all(xs)
  return SymBool(z3.And([lift_bool(x) for x in xs]))

def sor(*xs):
  if all(isinstance(x, (bool, int)) for x in xs): return any(xs)
  return SymBool(z3.Or([lift_bool(x) for x in xs]))

def snot(x):
  if isinstance(x, (bool, int)): return not x
  return SymBool(z3.Not(lift_bool(x)))

def implies(a, b):
  if isinstance(a, (bool, int)) and isinstance(b, (bool, int)): return (not a) or bool(b)
  return SymBool(z3.Implies(lift_bool(a), lift_bool(b)))

def siff(a, b):
  if isinstance(a, (bool, int)) and isinstance(b, (bool, int)): return bool(a) == bool(b)
  return SymBool(lift_bool(a) == lift_bool(b))

def ite(c, a, b):
  """value-level if-then-else without forking"""
  if isinstance(c, (bool, int)): return a if c else b
  c = lift_bool(c)
  if isinstance(a, SymReal) or isinstance(b, SymReal) or isinstance(a, (float, Fraction)) or isinstance(b, (float, Fraction)):
    return SymReal(z3.If(c, lift_real(a), lift_real(b)))
  if isinstance(a, (SymBool, bool)) and isinstance(b, (SymBool, bool)):
    return SymBool(z3.If(c, lift_bool(a), lift_bool(b)))
  return SymInt(z3.If(c, lift_int(a), lift_int(b)))


# ------------------------------------------------------------------ integers
def lift_int(x):
  if isinstance(x, SymInt): return x.e
  if isinstance(x, bool): return z3.IntVal(int(x))
  if isinstance(x, int): return z3.IntVal(x)
  if isinstance(x, SymBool): return z3.If(x.e, z3.IntVal(1), z3.IntVal(0))
  raise TypeError('lift_int %r' % type(x))


def _is_pow2(n):
  return n > 0 and (n & (n - 1)) == 0


def boundary(what):
  """a symbolic value reached a C boundary nobody modelled: record it (never raise: scales has
  bare `except:` clauses that would swallow the exception) and end the path inconclusive."""
  f = sys._getframe(2)
  where = []
  for _ in range(6):
    if f is None: break
    where.append('%s:%d' % (f.f_code.co_filename, f.f_lineno)); f = f.f_back
  _E().boundary_hits.append('%s at %s' % (what, ' < '.join(where)))


import linecache, re as _re
_LOG_RE = _re.compile(r'\b(_log|LOG|log|ROOT_LOG|logging|POOL_LOGGER|SINK_LOG)\.(debug|info|warning|warn|error|exception|critical)\(')


def _log_site():
  """'%d' % x inside a log call: formatting of a message nobody reads gets a placeholder (no
  constraint, no fork).  Only statements that are log calls qualify (stub list 3.8)."""
  f = sys._getframe(2)
  for _ in range(3):
    if f is None: return False
    fn = f.f_code.co_filename
    if '/scales/' in fn:
      return bool(_LOG_RE.search(linecache.getline(fn, f.f_lineno)))
    f = f.f_back
  return False


class SymInt(object):
  __slots__ = ('e',)
  def __init__(self, e):
    self.e = e if isinstance(e, z3.ExprRef) else z3.IntVal(e)
  # arithmetic
  def __add__(self, o):
    if isinstance(o, (SymReal, float, Fraction)): return SymReal(z3.ToReal(self.e)) + o
    return SymInt(self.e + lift_int(o))
  __radd__ = __add__
  def __sub__(self, o):
    if isinstance(o, (SymReal, float, Fraction)): return SymReal(z3.ToReal(self.e)) - o
    return SymInt(self.e - lift_int(o))
  def __rsub__(self, o):
    if isinstance(o, (SymReal, float, Fraction)): return o - SymReal(z3.ToReal(self.e))
    return SymInt(lift_int(o) - self.e)
  def __mul__(self, o):
    if isinstance(o, (SymReal, float, Fraction)): return SymReal(z3.ToReal(self.e)) * o
    return SymInt(self.e * lift_int(o))
  __rmul__ = __mul__
  def __neg__(self): return SymInt(-self.e)
  def __pos__(self): return self
  def __abs__(self): return SymInt(z3.If(self.e >= 0, self.e, -self.e))
  def __floordiv__(self, o):
    if isinstance(o, int) and o > 0: return SymInt(self.e / z3.IntVal(o))   # z3 div = floor for o>0
    raise TypeError('SymInt // non-constant')
  def __mod__(self, o):
    if isinstance(o, int) and o > 0: return SymInt(self.e % z3.IntVal(o))
    raise TypeError('SymInt %% non-constant')
  def __truediv__(self, o):
    return SymReal(z3.ToReal(self.e)) / o
  def __rtruediv__(self, o):
    return lift_sreal(o) / SymReal(z3.ToReal(self.e))
  def __lshift__(self, o):
    if isinstance(o, int): return SymInt(self.e * (1 << o))
    raise TypeError('SymInt << symbolic')
  def __rshift__(self, o):
    if isinstance(o, int): return SymInt(self.e / z3.IntVal(1 << o))
    raise TypeError('SymInt >> symbolic')
  def __and__(self, o):
    if isinstance(o, int):
      if o >= 0 and _is_pow2(o + 1): return SymInt(self.e % z3.IntVal(o + 1))
      # masks of the form 1...10...0 (within 32/64 bit): x - x mod 2^k, then low part mod width
      for width in (8, 16, 24, 32, 64):
        full = (1 << width) - 1
        if 0 <= o <= full:
          inv = full ^ o
          if _is_pow2(inv + 1):
            lo = self.e % z3.IntVal(1 << width)
            return SymInt(lo - lo % z3.IntVal(inv + 1))
          break
    raise TypeError('SymInt & unsupported mask %r' % (o,))
  __rand__ = __and__
  def __or__(self, o):
    """bitwise or, modelled when the operands occupy disjoint bit ranges (x a multiple of 2^k, 0 <= y < 2^k):
    then x | y == x + y; which k applies is decided by the solver"""
    E = _E()
    a, b = self.e, lift_int(o)
    for (x, y) in ((a, b), (b, a)):
      for k in (8, 16, 24, 32, 4, 1, 2):
        c = z3.And(x % (1 << k) == 0, x >= 0, y >= 0, y < (1 << k))
        if E._check(z3.Not(c)) == z3.unsat:
          return SymInt(x + y)
    # general case for 32-bit non-negative operands: through bit-vectors
    rng = z3.And(a >= 0, a < (1 << 32), b >= 0, b < (1 << 32))
    if E._check(z3.Not(rng)) == z3.unsat:
      return SymInt(z3.BV2Int(z3.Int2BV(a, 32) | z3.Int2BV(b, 32)))
    boundary('SymInt | SymInt with operands outside [0, 2^32)')
    return SymInt(a + b)
  __ror__ = __or__
  # comparisons
  def __lt__(self, o):
    if isinstance(o, (SymReal, float, Fraction)): return SymReal(z3.ToReal(self.e)) < o
    return SymBool(self.e < lift_int(o))
  def __le__(self, o):
    if isinstance(o, (SymReal, float, Fraction)): return SymReal(z3.ToReal(self.e)) <= o
    return SymBool(self.e <= lift_int(o))
  def __gt__(self, o):
    if isinstance(o, (SymReal, float, Fraction)): return SymReal(z3.ToReal(self.e)) > o
    return SymBool(self.e > lift_int(o))
  def __ge__(self, o):
    if isinstance(o, (SymReal, float, Fraction)): return SymReal(z3.ToReal(self.e)) >= o
    return SymBool(self.e >= lift_int(o))
  def __eq__(self, o):
    if isinstance(o, (SymInt, int)) and not isinstance(o, bool): return SymBool(self.e == lift_int(o))
    if isinstance(o, bool): return SymBool(self.e == lift_int(o))
    if isinstance(o, (SymReal, float, Fraction)): return SymReal(z3.ToReal(self.e)) == o
    return False
  def __ne__(self, o):
    r = self.__eq__(o)
    return (not r) if isinstance(r, bool) else SymBool(z3.Not(r.e))
  def __hash__(self): return 0     # all symbolic keys collide; dict/set then probe by ==
  def __bool__(self): return _E().decide(self.e != 0)
  def unique(self):
    """the concrete value if the path condition entails one, else None"""
    E = _E()
    v = z3.simplify(self.e)
    if z3.is_int_value(v): return v.as_long()
    if E.model is None:
      if E._check() != z3.sat: return None
      E.model = E.s.model()
    mv = E.model.eval(self.e, model_completion=True).as_long()
    if E._check(self.e != mv) == z3.unsat: return mv
    return None
  def concretize(self, max_domain=16, what='int()'):
    """unique value, or fork over a small domain; else record a boundary hit."""
    E = _E()
    v = z3.simplify(self.e)
    if z3.is_int_value(v): return v.as_long()
    for _ in range(max_domain):
      if E.model is None:
        if E._check() != z3.sat: break
        E.model = E.s.model()
      mv = E.model.eval(self.e, model_completion=True).as_long()
      if E.decide(self.e == mv): return mv
    boundary('%s of unbounded SymInt %s' % (what, self.e))
    E._abort()
  def __index__(self):
    if _log_site(): return 0
    return self.concretize(what='__index__')
  def __int__(self):
    if _log_site(): return 0
    return self.concretize(what='__int__')
  def __repr__(self): return 'SymInt(%s)' % self.e
  def __format__(self, spec): return '<sym>'
  def __str__(self): return '<sym>'


# ------------------------------------------------------------------ reals
def lift_real(x):
  if isinstance(x, SymReal): return x.e
  if isinstance(x, SymInt): return z3.ToReal(x.e)
  if isinstance(x, bool): return z3.RealVal(int(x))
  if isinstance(x, int): return z3.RealVal(x)
  if isinstance(x, float): return z3.RealVal(str(Fraction(x)))
  if isinstance(x, Fraction): return z3.RealVal(str(Fraction(x)))
  raise TypeError('lift_real %r' % type(x))


def lift_sreal(x):
  return x if isinstance(x, SymReal) else SymReal(lift_real(x))


class SymReal(object):
  __slots__ = ('e',)
  def __init__(self, e): self.e = e
  def __add__(s, o): return SymReal(s.e + lift_real(o))
  __radd__ = __add__
  def __sub__(s, o): return SymReal(s.e - lift_real(o))
  def __rsub__(s, o): return SymReal(lift_real(o) - s.e)
  def __mul__(s, o): return SymReal(s.e * lift_real(o))
  __rmul__ = __mul__
  def __truediv__(s, o): return SymReal(s.e / lift_real(o))
  def __rtruediv__(s, o): return SymReal(lift_real(o) / s.e)
  def __neg__(s): return SymReal(-s.e)
  def __pos__(s): return s
  def __abs__(s): return SymReal(z3.If(s.e >= 0, s.e, -s.e))
  def __lt__(s, o): return SymBool(s.e < lift_real(o))
  def __le__(s, o): return SymBool(s.e <= lift_real(o))
  def __gt__(s, o): return SymBool(s.e > lift_real(o))
  def __ge__(s, o): return SymBool(s.e >= lift_real(o))
  def __eq__(s, o):
    try: return SymBool(s.e == lift_real(o))
    except TypeError: return False
  def __ne__(s, o):
    try: return SymBool(s.e != lift_real(o))
    except TypeError: return True
  def __hash__(s): return 0
  def __bool__(s): return _E().decide(s.e != 0)
  def __ceil__(s):
    from . import stubs
    return stubs.sym_ceil(s)
  def __floor__(s):
    from . import stubs
    return stubs.sym_floor(s)
  def __trunc__(s):
    from . import stubs
    return stubs.sym_int(s)
  def __round__(s, ndigits=None):
    """round(): nearest integer, ties to even (Python semantics)"""
    from . import stubs
    if ndigits is not None: raise TypeError('round(SymReal, ndigits) is not modelled')
    xe = z3.simplify(s.e)
    def mk(kr, xe):
      k = z3.ToInt(kr)
      return (kr - z3.RealVal('1/2') <= xe, xe <= kr + z3.RealVal('1/2'),
              z3.Implies(xe == kr + z3.RealVal('1/2'), k % 2 == 0), z3.Implies(xe == kr - z3.RealVal('1/2'), k % 2 == 0))
    return SymInt(stubs._memo_int('round', xe, mk))
  def __float__(s):
    v = z3.simplify(s.e)
    if z3.is_rational_value(v): return float(Fraction(v.numerator_as_long(), v.denominator_as_long()))
    boundary('float() of SymReal %s' % s.e)
    return 0.0
  def __repr__(s): return 'SymReal(%s)' % s.e
  def __format__(s, spec): return '<symreal>'
  def __str__(s): return '<symreal>'


class SymRealInt(SymReal):
  """an integer-valued real (result of ceil/int on a SymReal)"""
  __slots__ = ('k',)
  def __init__(s, k): s.k = k; s.e = z3.ToReal(k)


# ------------------------------------------------------------------ fresh values (mode aware)
def fresh_int(name, lo=None, hi=None):
  E = _E(); name = E.fresh_name(name)
  if E.mode == 'concrete':
    v = int(E.concrete_vals[name])
    if (lo is not None and v < lo) or (hi is not None and v > hi): raise _eng.Infeasible()
    return v
  t = z3.Int(name); E.declare(name, 'int', t)
  cs = []
  if lo is not None: cs.append(t >= lo)
  if hi is not None: cs.append(t <= hi)
  if cs: E.add(*cs)
  return SymInt(t)


def fresh_real(name, lo=None, hi=None, lo_strict=False, hi_strict=False):
  E = _E(); name = E.fresh_name(name)
  if E.mode == 'concrete':
    v = Exact(Fraction(E.concrete_vals[name]))
    if lo is not None and (v < lo or (lo_strict and v == lo)): raise _eng.Infeasible()
    if hi is not None and (v > hi or (hi_strict and v == hi)): raise _eng.Infeasible()
    return v
  t = z3.Real(name); E.declare(name, 'real', t)
  cs = []
  if lo is not None: cs.append(t > lift_real(lo) if lo_strict else t >= lift_real(lo))
  if hi is not None: cs.append(t < lift_real(hi) if hi_strict else t <= lift_real(hi))
  if cs: E.add(*cs)
  return SymReal(t)


def fresh_bool(name):
  E = _E(); name = E.fresh_name(name)
  if E.mode == 'concrete':
    return bool(E.concrete_vals[name])
  t = z3.Bool(name); E.declare(name, 'bool', t)
  return SymBool(t)


def choose(name, n, inner=False):
  """symbolic choice of an index in range(n), concretised by forking (a Python int results).
  inner=True: called from inside scales code (a stub), never a shard point."""
  E = _E()
  if n <= 1: return 0
  v = fresh_int(name, 0, n - 1)
  if E.mode == 'concrete': return v
  for i in range(n - 1):
    c = lift_bool(v == i)
    if (E.decide(c) if inner else E.hdecide(c)): return i
  return n - 1


def choose_bool(name):
  return bool(fresh_bool(name))


def hdecide(c):
  """harness-level decision (shard point); in concrete mode a plain bool()"""
  E = _E()
  if E.mode == 'concrete' or isinstance(c, bool): return bool(c)
  return E.hdecide(lift_bool(c))


def define(name, c): _E().define(name, c)
def assume(c): _E().assume(c)
def check(name, c): _E().check(name, c)
def cover(label): _E().cover(label)
def is_concrete(): return _E().mode == 'concrete'


def time_const(x):
  """a concrete time constant usable in both modes"""
  if _E().mode == 'concrete': return Exact.conv(x)
  return SymReal(lift_real(x))
