"""Fake TCP layer and scripted peers (DESIGN.md 3.9, 3.10).

scales.scales_socket.gsocket / .socket are replaced; the real ScalesSocket, VarzSocketWrapper and the
real transports run on top.  The fake socket obeys the POSIX subset that matters:
  connect -> success after a delay / ECONNREFUSED after a delay / hangs;
  sendall/send/recv/recv_into on an unconnected or locally closed socket raise OSError;
  peer close -> recv returns b'' / recv_into returns 0;  recv returns between 1 and sz bytes;
  close() while another greenlet is blocked in recv wakes it with OSError (EBADF), as gevent does;
  a scheduled fault makes the k-th I/O operation of a connection raise OSError.
Delays may be symbolic reals: delivery order is then decided by the solver.
"""
import errno, struct
import gevent, gevent.event, gevent.queue
from . import vtime


class FakeSocketModule(object):
  """stands in for the `socket` module inside scales.scales_socket"""
  error = OSError; AF_UNSPEC = 0; SOCK_STREAM = 1; AI_PASSIVE = 1; AI_ADDRCONFIG = 2
  @staticmethod
  def getaddrinfo(host, port, *a):
    return [(2, 1, 6, '', (host, port))]


class Net(object):
  """one per path: endpoints, connections, logs"""
  current = None

  def __init__(self):
    Net.current = self
    self.endpoints = {}      # (host, port) -> Endpoint
    self.conns = []
    self.log = []            # ('connect', t, addr, outcome) / ('tx', t, conn, bytes) / ('close', t, conn) ...
    self.chunk = None        # max bytes returned by one recv (None = no limit)

  def endpoint(self, host, port, **kw):
    e = Endpoint(self, (host, port), **kw); self.endpoints[(host, port)] = e; return e

  def install(self):
    import scales.scales_socket as ss
    ss.gsocket = FakeGSocket; ss.socket = FakeSocketModule
    Net.current = self

  def tx_log(self, conn=None):
    return [(t, c, b) for (k, t, c, b) in [x for x in self.log if x[0] == 'tx'] if conn is None or c is conn]


class Endpoint(object):
  def __init__(self, net, addr, peer=None, connect='ok', connect_delay=0):
    self.net = net; self.addr = addr; self.peer_factory = peer
    self.connect = connect          # 'ok' | 'refuse' | 'hang' | callable(attempt_index) -> one of these
    self.connect_delay = connect_delay
    self.attempts = []              # virtual times of connect attempts
    self.conns = []

  def outcome(self, k):
    if not callable(self.connect): return self.connect
    try:
      return self.connect(k, vtime.now())
    except TypeError:
      return self.connect(k)


def _same_time(a, b):
  from symex.values import is_concrete
  try:
    return is_concrete(a) and is_concrete(b) and a == b
  except Exception:
    return False


class FakeGSocket(object):
  """gevent.socket.socket stand-in"""
  def __init__(self, family=None, typ=None, *a):
    self.net = Net.current
    self.rx = []                       # received but unread chunks
    self.rx_evt = gevent.event.Event()
    self.connected = False; self.closed = False; self.peer_closed = False
    self.peer = None; self.endpoint = None
    self.io_count = 0; self.fault_at = None; self.id = None
    self.hang_evt = None

  # ---- client side API
  def connect(self, addr):
    net = self.net
    ep = net.endpoints.get(tuple(addr))
    k = len(ep.attempts) if ep else 0
    t = vtime.now()
    if ep is None:
      net.log.append(('connect', t, addr, 'refuse'))
      raise OSError(errno.ECONNREFUSED, 'Connection refused')
    ep.attempts.append(t)
    out = ep.outcome(k)
    d = ep.connect_delay(k) if callable(ep.connect_delay) else ep.connect_delay
    if out == 'hang':
      net.log.append(('connect', t, addr, 'hang'))
      self.hang_evt = gevent.event.Event()
      self.hang_evt.wait()
      raise OSError(errno.EBADF, 'closed during connect')
    if not (isinstance(d, (int, float)) and d == 0):
      gevent.sleep(d)
    if self.closed:
      raise OSError(errno.EBADF, 'closed during connect')
    if out == 'refuse':
      net.log.append(('connect', t, addr, 'refuse'))
      raise OSError(errno.ECONNREFUSED, 'Connection refused')
    self.connected = True; self.endpoint = ep
    self.id = len(net.conns); net.conns.append(self); ep.conns.append(self)
    net.log.append(('connect', t, addr, 'ok'))
    if ep.peer_factory is not None:
      self.peer = ep.peer_factory(self)

  def setsockopt(self, *a): pass
  def settimeout(self, *a): pass

  def _io(self, what):
    self.io_count += 1
    if self.closed or not self.connected:
      raise OSError(errno.EBADF, 'Bad file descriptor (%s on closed/unconnected socket)' % what)
    if self.fault_at is not None and self.io_count >= self.fault_at:
      self.fault_at = None
      self.net.log.append(('fault', vtime.now(), self, what))
      raise OSError(errno.ECONNRESET, 'Connection reset by peer (injected at %s)' % what)

  def sendall(self, data):
    self._io('send')
    data = bytes(data)
    now = vtime.now(); last = self.net.log[-1] if self.net.log else None
    if last is not None and last[0] == 'tx' and last[2] is self and (last[1] is now or _same_time(last[1], now)):
      self.net.log[-1] = ('tx', last[1], self, last[3] + data)      # pieces written at the same instant: one write
    else:
      self.net.log.append(('tx', now, self, data))
    if self.peer is not None and not self.peer_closed:
      self.peer.on_bytes(data)

  def send(self, data):
    # socket.send() may accept only part of the buffer: the fake accepts at most net.send_chunk bytes per call, so
    # that code writing through send() has to loop over partial sends correctly (sendall() takes everything)
    data = bytes(data)
    k = getattr(self.net, 'send_chunk', 5)
    if k and len(data) > k: data = data[:k]
    self.sendall(data); return len(data)

  def _wait_rx(self):
    while not self.rx:
      if self.closed: raise OSError(errno.EBADF, 'Bad file descriptor')
      if self.peer_closed: return False
      self.rx_evt.clear()
      self.rx_evt.wait()
    return True

  def recv_into(self, view, sz):
    self._io('recv')
    if not self._wait_rx(): return 0
    if self.closed: raise OSError(errno.EBADF, 'Bad file descriptor')
    chunk = self.rx[0]
    n = min(sz, len(chunk))
    if self.net.chunk: n = min(n, self.net.chunk)
    view[:n] = chunk[:n]
    if n == len(chunk): self.rx.pop(0)
    else: self.rx[0] = chunk[n:]
    return n

  def recv(self, sz):
    b = bytearray(sz); n = self.recv_into(memoryview(b), sz); return bytes(b[:n])

  def close(self):
    if self.closed: return
    self.closed = True
    self.net.log.append(('close', vtime.now(), self, None))
    self.rx_evt.set()
    if self.hang_evt is not None: self.hang_evt.set()
    if self.peer is not None: self.peer.on_client_close()

  # ---- peer side API
  def deliver(self, data):
    """bytes from the peer become readable now"""
    if self.closed or self.peer_closed: return
    self.rx.append(bytes(data)); self.rx_evt.set()

  def peer_close(self):
    if self.peer_closed: return
    self.peer_closed = True
    self.net.log.append(('peer-close', vtime.now(), self, None))
    self.rx_evt.set()


# ------------------------------------------------------------------------------- peers
class FramedPeer(object):
  """length-prefixed frames in, scripted replies out"""
  def __init__(self, sock, script):
    self.sock = sock; self.buf = b''; self.script = script; self.requests = []; self.closed_by_client = False
    script.peers.append(self)
  def on_bytes(self, data):
    self.buf += data
    while len(self.buf) >= 4:
      n, = struct.unpack('!i', self.buf[:4])
      if len(self.buf) < 4 + n: break
      frame, self.buf = self.buf[4:4 + n], self.buf[4 + n:]
      self.on_frame(frame)
  def on_client_close(self): self.closed_by_client = True
  def send_frame(self, payload):
    self.sock.deliver(struct.pack('!i', len(payload)) + payload)
  def later(self, delay, fn, *a):
    if isinstance(delay, (int, float)) and delay == 0:
      gevent.spawn(fn, *a)
    else:
      gevent.spawn_later(delay, fn, *a)


class Script(object):
  """what the simulated servers do: per request index a plan ('reply', delay) | ('never',) |
  ('close', delay) | ('error', delay); plus the echo function and the decoded request log"""
  def __init__(self, plan=None, echo=None, ping_plan=None):
    self.plan = plan or (lambda k, peer: ('reply', 0))
    self.echo = echo or (lambda method, args: 'echo:%s' % (args[0] if args else ''))
    self.ping_plan = ping_plan or (lambda k, peer: ('reply', 0))
    self.requests = []       # (time, peer, method, args, tag)
    self.discards = []       # (time, peer, tag)
    self.peers = []
    self.pings = []


def thrift_decode_call(payload):
  """decode a binary-protocol call with the library's pure-Python TBinaryProtocol"""
  from thrift.protocol.TBinaryProtocol import TBinaryProtocol
  from thrift.transport.TTransport import TMemoryBuffer
  from thrift.Thrift import TType
  itr = TMemoryBuffer(payload); p = TBinaryProtocol(itr)
  name, mtype, seqid = p.readMessageBegin()
  args = []
  p.readStructBegin()
  while True:
    fname, ftype, fid = p.readFieldBegin()
    if ftype == TType.STOP: break
    if ftype == TType.STRING: args.append(p.readString())
    elif ftype == TType.I32: args.append(p.readI32())
    elif ftype == TType.I64: args.append(p.readI64())
    else: p.skip(ftype)
    p.readFieldEnd()
  p.readStructEnd(); p.readMessageEnd()
  return name, mtype, seqid, args


def thrift_encode_reply(name, seqid, value):
  from thrift.protocol.TBinaryProtocol import TBinaryProtocol
  from thrift.transport.TTransport import TMemoryBuffer
  from thrift.Thrift import TType, TMessageType
  otr = TMemoryBuffer(); p = TBinaryProtocol(otr)
  p.writeMessageBegin(name, TMessageType.REPLY, seqid)
  p.writeStructBegin(name + '_result')
  p.writeFieldBegin('success', TType.STRING, 0); p.writeString(value); p.writeFieldEnd()
  p.writeFieldStop(); p.writeStructEnd(); p.writeMessageEnd()
  return otr.getvalue()


class ThriftPeer(FramedPeer):
  """framed Thrift server (serial connections)"""
  def on_frame(self, frame):
    name, mtype, seqid, args = thrift_decode_call(frame)
    k = len(self.script.requests)
    self.script.requests.append((vtime.now(), self, name, args, None))
    plan = self.script.plan(k, self)
    if plan[0] == 'reply':
      self.later(plan[1], self.send_frame, thrift_encode_reply(name, seqid, self.script.echo(name, args)))
    elif plan[0] == 'close':
      self.later(plan[1], self.sock.peer_close)
    elif plan[0] == 'garbage':
      self.later(plan[1], self.sock.deliver, b'\x00\x00')
      self.later(plan[1], self.sock.peer_close)


class MuxPeer(FramedPeer):
  """ThriftMux server written from the protocol description: Tping/Rping, Tdispatch/Rdispatch, Tdiscarded"""
  def on_frame(self, frame):
    typ, = struct.unpack('!b', frame[:1]); tag = int.from_bytes(frame[1:4], 'big')
    if typ == 65:      # Tping
      k = len(self.script.pings); self.script.pings.append((vtime.now(), self, tag))
      plan = self.script.ping_plan(k, self)
      if plan[0] == 'reply':
        self.later(plan[1], self.send_frame, struct.pack('!b', -65) + frame[1:4])
      elif plan[0] == 'close':
        self.later(plan[1], self.sock.peer_close)
    elif typ == 2:     # Tdispatch
      off = 4
      nctx, = struct.unpack('!h', frame[off:off + 2]); off += 2
      ctx = []
      for _ in range(nctx):
        kv = []
        for _ in range(2):
          l, = struct.unpack('!h', frame[off:off + 2]); off += 2
          kv.append(frame[off:off + l]); off += l
        ctx.append(tuple(kv))
      l, = struct.unpack('!h', frame[off:off + 2]); off += 2 + l        # dst
      nd, = struct.unpack('!h', frame[off:off + 2]); off += 2            # dtab (count)
      name, mtype, seqid, args = thrift_decode_call(frame[off:])
      k = len(self.script.requests)
      self.script.requests.append((vtime.now(), self, name, args, tag))
      plan = self.script.plan(k, self)
      if plan[0] == 'reply':
        body = struct.pack('!b', -2) + frame[1:4] + struct.pack('!bh', 0, 0) + thrift_encode_reply(name, seqid, self.script.echo(name, args))
        self.later(plan[1], self.send_frame, body)
      elif plan[0] == 'close':
        self.later(plan[1], self.sock.peer_close)
      elif plan[0] == 'nack':
        self.later(plan[1], self.send_frame, struct.pack('!b', -2) + frame[1:4] + struct.pack('!bh', 2, 0))
    elif typ == 66:    # Tdiscarded
      self.script.discards.append((vtime.now(), self, int.from_bytes(frame[4:7], 'big'), tag))
    else:
      self.script.requests.append((vtime.now(), self, '?type%d' % typ, [], tag))
