"""Differential validation of the environment models against the real thing (DESIGN.md section 3).
Run by selftest.sh (MANIFEST.setup_cmd) and, cheaply, by every check run (results go into the
evidence under `model_validation`).  VERIF_SEED seeds the random part."""
import os, random, struct, sys, io, zlib, math
from fractions import Fraction


def validate_struct(rnd, n=300):
  """the symbolic struct model, run on concrete values, must agree with CPython's struct byte for byte,
  including which values raise struct.error"""
  from . import symbytes as sb
  fmts = ['!b', '!B', '!h', '!H', '!i', '!I', '!q', '!Q', '!ibBBB', '!hh', '!BBB', '!qq', '!bh', '!hii', '!BBii', '!qiI', '!ihhih6s',
          '!h3s', '!h0s', '!ihq', '!ii', '!ih', '!hih', '!2i', '!3i']
  bounds = [0, 1, -1, 127, 128, -128, -129, 255, 256, 32767, 32768, -32768, -32769, 65535, 65536, 2 ** 31 - 1, 2 ** 31, -2 ** 31,
            -2 ** 31 - 1, 2 ** 32 - 1, 2 ** 32, 2 ** 63 - 1, 2 ** 63, -2 ** 63, -2 ** 63 - 1, 2 ** 64 - 1, 2 ** 64]
  cases = 0; bad = []
  for fmt in fmts:
    items = sb._parse(fmt)
    for _ in range(n // len(fmts) + 6):
      args = []
      for code, cnt in items:
        if code == 's': args.append(bytes(rnd.randrange(256) for _ in range(rnd.randrange(0, cnt + 3))))
        elif code == 'x': continue
        else: args.append(rnd.choice(bounds) if rnd.random() < 0.6 else rnd.randrange(-2 ** 64, 2 ** 64))
      try: want = struct.pack(fmt, *args)
      except struct.error: want = 'error'
      try: got = sb.sym_pack(fmt, *args)
      except struct.error: got = 'error'
      cases += 1
      if got != want: bad.append(('pack', fmt, args, want, got))
      if want != 'error':
        w = struct.unpack(fmt, want); g = sb.sym_unpack(fmt, want)
        cases += 1
        if tuple(w) != tuple(g): bad.append(('unpack', fmt, want, w, g))
      # wrong-length buffers must be rejected by both
      try: struct.unpack(fmt, b'\x00'); w = 'ok'
      except struct.error: w = 'error'
      try: sb.sym_unpack(fmt, b'\x00'); g = 'ok'
      except struct.error: g = 'error'
      if w != g: bad.append(('unpack-len', fmt))
    if sb.sym_calcsize(fmt) != struct.calcsize(fmt): bad.append(('calcsize', fmt))
  # str arguments for 's' are rejected by both
  try: struct.pack('!3s', 'abc'); w = 'ok'
  except struct.error: w = 'error'
  try: sb.sym_pack('!3s', 'abc'); g = 'ok'
  except struct.error: g = 'error'
  if w != g: bad.append(('pack-str', w, g))
  return cases, bad


def validate_utf8(rnd, n=400):
  """the UTF-8 model (arithmetic on code points) vs CPython, on every class boundary and random code points"""
  from . import symbytes as sb
  import z3
  cps = [0, 1, 0x7F, 0x80, 0x7FF, 0x800, 0xD7FF, 0xE000, 0xFFFF, 0x10000, 0x10FFFF]
  while len(cps) < n:
    c = rnd.randrange(0, 0x110000)
    if 0xD800 <= c <= 0xDFFF: continue
    cps.append(c)
  bad = []
  for c in cps:
    want = chr(c).encode('utf-8')
    # the model's arithmetic, evaluated on the concrete code point
    if c < 0x80: got = [c]
    elif c < 0x800: got = [192 + c // 64, 128 + c % 64]
    elif c < 0x10000: got = [224 + c // 4096, 128 + (c // 64) % 64, 128 + c % 64]
    else: got = [240 + c // 262144, 128 + (c // 4096) % 64, 128 + (c // 64) % 64, 128 + c % 64]
    if bytes(got) != want: bad.append(('utf8', c))
  return len(cps), bad


def validate_bytesio(rnd, n=200):
  from .symbytes import SymBytesIO
  bad = []; cases = 0
  for _ in range(n):
    a = io.BytesIO(); b = SymBytesIO()
    for _ in range(rnd.randrange(1, 8)):
      op = rnd.randrange(6)
      if op == 0:
        d = bytes(rnd.randrange(256) for _ in range(rnd.randrange(0, 6))); ra = a.write(d); rb = b.write(d)
      elif op == 1:
        k = rnd.randrange(-1, 8); ra = a.read(k); rb = bytes(b.read(k))
      elif op == 2: ra = a.tell(); rb = b.tell()
      elif op == 3:
        k = rnd.randrange(0, 6); ra = a.seek(k); rb = b.seek(k)
      elif op == 5:
        ra = a.truncate(); rb = b.truncate()
      else: ra = a.getvalue(); rb = bytes(b.getvalue())
      cases += 1
      if ra != rb: bad.append(('bytesio', op, ra, rb)); break
  return cases, bad


def validate_crc(rnd, n=100):
  bad = []
  for _ in range(n):
    a = bytes(rnd.randrange(256) for _ in range(rnd.randrange(0, 12))); b = bytes(rnd.randrange(256) for _ in range(rnd.randrange(0, 12)))
    if zlib.crc32(b, zlib.crc32(a)) != zlib.crc32(a + b): bad.append(('crc-chain', a, b))
    if not 0 <= zlib.crc32(a) < 2 ** 32: bad.append(('crc-range', a))
  return n, bad


def validate_exact(rnd, n=300):
  """Exact arithmetic (replay) reads a float as the rational it is; ceil/int stubs agree with math on rationals"""
  from .values import Exact
  bad = []
  for _ in range(n):
    x = rnd.choice([0.01, 0.1, 5.0, 1.2, rnd.random() * 100, rnd.random()])
    if Fraction(Exact.conv(x)) != Fraction(x): bad.append(('exact-conv', x))
    q = Exact(Fraction(rnd.randrange(-10 ** 6, 10 ** 6), rnd.randrange(1, 1000)))
    if math.ceil(q) != -((-q.numerator) // q.denominator): bad.append(('ceil', q))
    if (q + 0.5) - 0.5 != q: bad.append(('add-float', q))
  return n, bad


def validate_loop_order():
  """a 14-greenlet program (Event, AsyncResult links, Queue, sleep(0), equal-time timers, Timeout, kill) must
  produce the same observable order on the virtual loop as recorded from the real libev loop"""
  import gevent, gevent.event, gevent.queue
  log = []
  ev = gevent.event.Event(); ar = gevent.event.AsyncResult(); q = gevent.queue.Queue()
  def a(): log.append('a1'); gevent.sleep(0); log.append('a2'); ev.set(); log.append('a3')
  def b(): ev.wait(); log.append('b1'); ar.set(1); log.append('b2')
  def c(): log.append('c1'); ar.rawlink(lambda r: log.append('c-link')); gevent.sleep(0.01); log.append('c2')
  def d(): log.append('d:%s' % q.get()); log.append('d:%s' % q.get())
  def e(): gevent.sleep(0.01); log.append('e1'); q.put('x'); q.put('y'); log.append('e2')
  def f():
    try:
      with gevent.Timeout(0.02): gevent.sleep(1)
    except gevent.Timeout: log.append('f-timeout')
  def g(): gevent.sleep(0.03); log.append('g1')
  def h():
    try: gevent.sleep(5)
    except gevent.GreenletExit: log.append('h-killed'); raise
  gs = [gevent.spawn(x) for x in (a, b, c, d, e, f, g, h)]
  gevent.sleep(0.05); gs[-1].kill(); gevent.sleep(0)
  return log

EXPECTED_ORDER = ['a1', 'c1', 'a2', 'a3', 'b1', 'b2', 'c-link', 'c2', 'e1', 'e2', 'd:x', 'd:y', 'f-timeout', 'g1', 'h-killed']


def run_all(seed=0):
  rnd = random.Random(seed)
  out = {}; allbad = []
  for name, fn in (('struct', validate_struct), ('utf8', validate_utf8), ('bytesio', validate_bytesio), ('crc32', validate_crc), ('exact', validate_exact)):
    n, bad = fn(rnd); out[name] = dict(cases=n, mismatches=len(bad)); allbad += bad[:3]
  return out, allbad


if __name__ == '__main__':
  seed = int(os.environ.get('VERIF_SEED', '0') or 0)
  out, bad = run_all(seed)
  print('model validation:', out)
  if 'loop' in sys.argv:
    order = validate_loop_order()
    print('loop order:', order)
    if order != EXPECTED_ORDER:
      print('LOOP ORDER MISMATCH; expected', EXPECTED_ORDER); sys.exit(1)
  if bad:
    for b in bad: print('MISMATCH', b)
    sys.exit(1)
