"""Symbolic byte strings, text strings, byte streams and the struct model (DESIGN.md 3.4-3.6).

SymBytes : concrete length, each byte an int or a z3 Int term in [0,255].
SymStr   : str subclass; concrete number of characters, symbolic code points.
SymBytesIO: sequential write / read / tell / seek / getvalue over SymBytes.
sym_pack / sym_unpack / SymStruct / sym_calcsize: big-endian struct semantics with range checks
that raise struct.error exactly where CPython's struct does.
"""
import struct as _struct
import re
import z3
from . import engine as _eng
from .values import SymInt, SymBool, lift_int, fresh_int, sand, sor


def _E(): return _eng.ENG

# provenance of byte terms produced by packing an integer: ast id -> (value term, width, index, keepalive)
def _prov():
  E = _E()
  p = E.__dict__.get('_byte_prov')
  if p is None or E.__dict__.get('_byte_prov_path') is not E.trace:
    p = {}; E._byte_prov = p; E._byte_prov_path = E.trace
  return p


def _utf8_prov():
  E = _E()
  p = E.__dict__.get('_utf8_prov')
  if p is None or E.__dict__.get('_utf8_prov_path') is not E.trace:
    p = {}; E._utf8_prov = p; E._utf8_prov_path = E.trace
  return p


def _is_sym(b):
  return isinstance(b, (SymInt, z3.ExprRef))


def _term(b):
  if isinstance(b, SymInt): return b.e
  if isinstance(b, z3.ExprRef): return b
  return z3.IntVal(int(b))


class SymBytes(object):
  __slots__ = ('b',)
  def __init__(self, items=()):
    out = []
    for x in items:
      if isinstance(x, SymInt):
        v = z3.simplify(x.e)
        out.append(v.as_long() if z3.is_int_value(v) else v)
      elif isinstance(x, z3.ExprRef):
        v = z3.simplify(x)
        out.append(v.as_long() if z3.is_int_value(v) else v)
      else:
        out.append(int(x))
    self.b = tuple(out)
  @staticmethod
  def of(x):
    if isinstance(x, SymBytes): return x
    if isinstance(x, (bytes, bytearray, memoryview)): return SymBytes(bytes(x))
    raise TypeError('a bytes-like object is required, not %r' % type(x).__name__)
  def is_concrete(self): return all(isinstance(x, int) for x in self.b)
  def concrete(self):
    return bytes(self.b) if self.is_concrete() else self
  def __len__(self): return len(self.b)
  def __getitem__(self, i):
    if isinstance(i, slice): return SymBytes(self.b[i])
    x = self.b[i]
    return x if isinstance(x, int) else SymInt(x)
  def __iter__(self):
    for x in self.b: yield x if isinstance(x, int) else SymInt(x)
  def __add__(self, o): return SymBytes(self.b + SymBytes.of(o).b)
  def __radd__(self, o): return SymBytes(SymBytes.of(o).b + self.b)
  def __mul__(self, n): return SymBytes(self.b * n)
  def __eq__(self, o):
    if isinstance(o, str): return False
    try: o = SymBytes.of(o)
    except TypeError: return False
    if len(o.b) != len(self.b): return False
    cs = []
    for x, y in zip(self.b, o.b):
      if isinstance(x, int) and isinstance(y, int):
        if x != y: return False
      else: cs.append(_term(x) == _term(y))
    if not cs: return True
    return SymBool(z3.And(cs) if len(cs) > 1 else cs[0])
  def __ne__(self, o):
    r = self.__eq__(o)
    return (not r) if isinstance(r, bool) else SymBool(z3.Not(r.e))
  def __hash__(self): return 0
  def __bool__(self): return len(self.b) > 0
  def __repr__(self): return 'SymBytes(%s)' % (list(self.b),)
  def decode(self, enc='utf-8', errors='strict'):
    if self.is_concrete(): return bytes(self.b).decode(enc, errors)
    key = tuple(x if isinstance(x, int) else ('t', x.get_id()) for x in self.b)
    hit = _utf8_prov().get(key)
    if hit is not None: return hit[0]
    from .values import boundary
    boundary('decode() of symbolic bytes that no modelled encode() produced')
    return '?' * len(self.b)
  def tobytes(self): return self
  def startswith(self, p):
    p = SymBytes.of(p)
    if len(p) > len(self): return False
    return self[:len(p)] == p


def sym_len_prefix_ok(x): return True


# ------------------------------------------------------------------ text
UTF8_CLASSES = ((0x80, 1), (0x800, 2), (0x10000, 3), (0x110000, 4))


def utf8_encode_cps(cps):
  """UTF-8 bytes of a list of code points (ints or SymInt); forks on the length class of each"""
  out = []
  for cp in cps:
    if isinstance(cp, int):
      out.extend(chr(cp).encode('utf-8')); continue
    e = cp.e
    if bool(cp < 0x80):
      out.append(e)
    elif bool(cp < 0x800):
      out += [192 + e / 64, 128 + e % 64]
    elif bool(cp < 0x10000):
      out += [224 + e / 4096, 128 + (e / 64) % 64, 128 + e % 64]
    else:
      out += [240 + e / 262144, 128 + (e / 4096) % 64, 128 + (e / 64) % 64, 128 + e % 64]
  return SymBytes(out)


class SymStr(str):
  """text with a concrete number of characters and symbolic code points"""
  def __new__(cls, cps):
    s = str.__new__(cls, '�' * len(cps))
    s.cps = list(cps)
    return s
  @staticmethod
  def fresh(name, n, lo=0, hi=0x10FFFF, split=True):
    """n symbolic code points (surrogates excluded).  split: case-split on the UTF-8 length class of
    each code point at harness level (a shard point), so the encoder's own branches are implied."""
    from .values import hdecide
    cps = []
    for i in range(n):
      c = fresh_int('%s_cp%d' % (name, i), lo, hi)
      if not isinstance(c, int):
        _E().add(z3.Or(c.e < 0xD800, c.e > 0xDFFF))
        if split:
          if not hdecide(c < 0x80):
            if not hdecide(c < 0x800):
              hdecide(c < 0x10000)
      elif 0xD800 <= c <= 0xDFFF:
        raise _eng.Infeasible()
      cps.append(c)
    if all(isinstance(c, int) for c in cps):
      return ''.join(chr(c) for c in cps)
    return SymStr(cps)
  def __len__(self): return len(self.cps)
  def encode(self, encoding='utf-8', errors='strict'):
    if encoding.lower().replace('_', '-') not in ('utf-8', 'utf8'):
      from .values import boundary
      boundary('encode(%r) of symbolic text' % encoding)
    out = utf8_encode_cps(self.cps)
    key = tuple(x if isinstance(x, int) else ('t', x.get_id()) for x in out.b)
    _utf8_prov()[key] = (self, out)
    return out
  def _cmp_cps(self, o):
    if isinstance(o, SymStr): ocps = o.cps
    elif isinstance(o, str): ocps = [ord(c) for c in o]
    else: return None
    return ocps
  def __eq__(self, o):
    ocps = self._cmp_cps(o)
    if ocps is None or len(ocps) != len(self.cps): return False
    cs = []
    for a, b in zip(self.cps, ocps):
      if isinstance(a, int) and isinstance(b, int):
        if a != b: return False
      else: cs.append(lift_int(a) == lift_int(b))
    if not cs: return True
    return SymBool(z3.And(cs) if len(cs) > 1 else cs[0])
  def __ne__(self, o):
    r = self.__eq__(o)
    return (not r) if isinstance(r, bool) else SymBool(z3.Not(r.e))
  def __hash__(self): return 0
  def startswith(self, prefix, *a):
    p = [ord(c) for c in prefix]
    if len(p) > len(self.cps): return False
    return bool(SymStr(self.cps[:len(p)]) == prefix)
  def __getitem__(self, i):
    if isinstance(i, slice): return SymStr(self.cps[i])
    return SymStr([self.cps[i]])
  def __repr__(self): return 'SymStr(%r)' % (self.cps,)
  def __str__(self): return self
  def __add__(self, o):
    ocps = self._cmp_cps(o)
    return SymStr(self.cps + ocps)
  def __radd__(self, o):
    return SymStr([ord(c) for c in o] + self.cps)


# ------------------------------------------------------------------ streams
class SymBytesIO(object):
  def __init__(self, initial=b''):
    self.data = list(SymBytes.of(initial).b) if not isinstance(initial, SymBytes) else list(initial.b)
    self.pos = 0
  def write(self, b):
    if isinstance(b, str): raise TypeError("a bytes-like object is required, not 'str'")
    b = SymBytes.of(b)
    n = len(b.b)
    if n == 0: return 0
    if self.pos > len(self.data): self.data.extend([0] * (self.pos - len(self.data)))
    self.data[self.pos:self.pos + n] = list(b.b)
    self.pos += n
    return n
  def read(self, n=-1):
    if isinstance(n, SymInt): n = n.concretize(what='read(n)')
    if n is None or n < 0: n = len(self.data) - self.pos
    out = SymBytes(self.data[self.pos:self.pos + n])
    self.pos += len(out.b)
    return out.concrete()
  def tell(self): return self.pos
  def seek(self, off, whence=0):
    if whence == 0: self.pos = off
    elif whence == 1: self.pos += off
    else: self.pos = len(self.data) + off
    return self.pos
  def truncate(self, size=None):
    if size is None: size = self.pos
    del self.data[size:]
    return size
  def readable(self): return True
  def writable(self): return True
  def seekable(self): return True
  def flush(self): pass
  @property
  def closed(self): return False
  def getvalue(self): return SymBytes(self.data).concrete()
  def getbuffer(self): return SymBytes(self.data)
  def close(self): pass
  def __len__(self): return len(self.data)


# ------------------------------------------------------------------ struct
_CODES = {'b': (1, True), 'B': (1, False), 'h': (2, True), 'H': (2, False), 'i': (4, True), 'I': (4, False),
          'l': (4, True), 'L': (4, False), 'q': (8, True), 'Q': (8, False)}
_FMT_RE = re.compile(r'(\d*)([a-zA-Z?])')


def _parse(fmt):
  if isinstance(fmt, bytes): fmt = fmt.decode()
  if not fmt or fmt[0] not in '!>':
    raise NotImplementedError('struct model: only network byte order formats are modelled: %r' % fmt)
  items = []
  pos = 1
  body = fmt[1:].replace(' ', '')
  idx = 0
  while idx < len(body):
    m = _FMT_RE.match(body, idx)
    if not m: raise _struct.error('bad char in struct format')
    cnt, code = m.group(1), m.group(2)
    idx = m.end()
    if code == 's':
      items.append(('s', int(cnt) if cnt else 1))
    elif code == 'x':
      items.append(('x', int(cnt) if cnt else 1))
    elif code in _CODES:
      for _ in range(int(cnt) if cnt else 1): items.append((code, 1))
    else:
      raise NotImplementedError('struct model: code %r' % code)
  return items


def sym_calcsize(fmt):
  n = 0
  for code, cnt in _parse(fmt):
    n += cnt if code in 'sx' else _CODES[code][0]
  return n


def _int_bytes(v, width, signed):
  """big-endian bytes of integer v (int or SymInt); raises struct.error when out of range"""
  lo, hi = (-(1 << (8 * width - 1)), (1 << (8 * width - 1)) - 1) if signed else (0, (1 << (8 * width)) - 1)
  if isinstance(v, bool): v = int(v)
  if isinstance(v, int):
    if not lo <= v <= hi: raise _struct.error('argument out of range')
    return list(v.to_bytes(width, 'big', signed=signed))
  if not isinstance(v, SymInt):
    raise _struct.error('required argument is not an integer')
  if not bool(sand(v >= lo, v <= hi)):
    raise _struct.error('argument out of range')
  u = z3.simplify(v.e % (1 << (8 * width))) if signed else v.e
  out = []
  prov = _prov()
  for k in range(width):
    sh = 8 * (width - 1 - k)
    t = z3.simplify((u / (1 << sh)) % 256 if sh else u % 256)
    prov[t.get_id()] = (v.e, width, k, signed, t)
    out.append(t)
  return out


def sym_pack(fmt, *args):
  items = _parse(fmt)
  nargs = sum(1 for c, _ in items if c != 'x')
  if nargs != len(args):
    raise _struct.error('pack expected %d items for packing (got %d)' % (nargs, len(args)))
  out = []
  ai = 0
  for code, cnt in items:
    if code == 'x':
      out += [0] * cnt; continue
    a = args[ai]; ai += 1
    if code == 's':
      if isinstance(a, str) or not isinstance(a, (bytes, bytearray, SymBytes)):
        raise _struct.error("argument for 's' must be a bytes object")
      bs = list(SymBytes.of(a).b)[:cnt]
      out += bs + [0] * (cnt - len(bs))
    else:
      w, signed = _CODES[code]
      out += _int_bytes(a, w, signed)
  return SymBytes(out).concrete()


def _bytes_int(bs, width, signed):
  if all(isinstance(x, int) for x in bs):
    return int.from_bytes(bytes(bs), 'big', signed=signed)
  # provenance shortcut: exactly the bytes of one packed integer of the same width/signedness
  prov = _prov()
  p0 = prov.get(bs[0].get_id()) if isinstance(bs[0], z3.ExprRef) else None
  if p0 is not None and p0[1] == width and p0[2] == 0:
    ok = True
    for k, x in enumerate(bs):
      p = prov.get(x.get_id()) if isinstance(x, z3.ExprRef) else None
      if p is None or not p[0].eq(p0[0]) or p[1] != width or p[2] != k or p[3] != p0[3]:
        ok = False; break
    if ok:
      v = p0[0]      # in range for its packing (pack raised struct.error otherwise)
      if p0[3] == signed: return SymInt(v)
      if p0[3] and not signed: return SymInt(z3.simplify(v % (1 << (8 * width))))
      return SymInt(z3.If(v >= (1 << (8 * width - 1)), v - (1 << (8 * width)), v))
  u = None
  for x in bs:
    t = _term(x)
    u = t if u is None else u * 256 + t
  if signed:
    u = z3.If(u >= (1 << (8 * width - 1)), u - (1 << (8 * width)), u)
  return SymInt(z3.simplify(u))


def sym_unpack(fmt, data):
  items = _parse(fmt)
  if isinstance(data, str): raise TypeError("a bytes-like object is required, not 'str'")
  d = SymBytes.of(data)
  if len(d) != sym_calcsize(fmt):
    raise _struct.error('unpack requires a buffer of %d bytes' % sym_calcsize(fmt))
  out = []
  pos = 0
  for code, cnt in items:
    if code == 'x': pos += cnt; continue
    if code == 's':
      out.append(SymBytes(d.b[pos:pos + cnt]).concrete()); pos += cnt
    else:
      w, signed = _CODES[code]
      out.append(_bytes_int(list(d.b[pos:pos + w]), w, signed)); pos += w
  return tuple(out)


class SymStruct(object):
  def __init__(self, fmt): self.format = fmt; self.size = sym_calcsize(fmt)
  def pack(self, *a): return sym_pack(self.format, *a)
  def unpack(self, d): return sym_unpack(self.format, d)


error = _struct.error


def sym_bytes_ctor(x=b'', encoding=None, errors=None):
  """bytes(text, 'utf-8') on symbolic text (module global `bytes` of thrift.protocol.TProtocol)"""
  if isinstance(x, SymStr): return x.encode(encoding or 'utf-8')
  if isinstance(x, SymBytes): return x
  if encoding is not None: return bytes(x, encoding)
  return bytes(x)


def install(module, names=('pack', 'unpack', 'calcsize', 'Struct')):
  """inject the struct model as module globals of a scales module (only names it already has)"""
  m = dict(pack=sym_pack, unpack=sym_unpack, calcsize=sym_calcsize, Struct=SymStruct)
  for n in names:
    if hasattr(module, n): setattr(module, n, m[n])
