"""Per-path environment on the virtual-time loop: clock, timer queues, greenlet hygiene."""
import time, gc
import gevent, gevent.hub
from gevent import Greenlet
from .values import time_const, Exact, SymReal, is_concrete
from . import stubs, engine as _eng

HUB = gevent.get_hub()
LOOP = HUB.loop
assert type(LOOP).__name__ == 'VLoop', 'run with GEVENT_LOOP=symex.vloop.VLoop'

GREENLETS = []
ERRORS = []
Greenlet.add_spawn_callback(lambda g: GREENLETS.append(g))


def _handle_error(context, etype, value, tb):
  # exceptions escaping a greenlet or a loop callback are recorded, not printed
  if etype is not None and issubclass(etype, gevent.GreenletExit): return
  ERRORS.append((context, etype, value))
HUB.handle_error = _handle_error


def now():
  return LOOP.now()

time.time = now

T0 = 1000


def kill_all():
  """kill every greenlet spawned during the previous path and drain the loop; anything those
  greenlets still execute while dying is outside every path (engine cleanup mode)"""
  E = _eng.ENG
  if E is not None: E.cleanup = True
  try:
    for _ in range(12):
      live = [g for g in GREENLETS if not g.dead]
      if not live and not LOOP._callbacks: break
      del GREENLETS[:]
      for g in live:
        try: g.kill(block=False)
        except BaseException: pass
      LOOP._timers = []
      gevent.sleep(0)
    del GREENLETS[:]
  finally:
    if E is not None: E.cleanup = False


def setup(resolution=0.01):
  """fresh virtual clock at T0, fresh timer queues wired into scales, no greenlet from earlier paths"""
  import scales.timer_queue as tqm, scales.sink as sinkm
  kill_all()
  LOOP.reset(time_const(T0))
  del ERRORS[:]
  # module-level shared state of scales that an aborted path may leave half-notified
  import scales.asynchronous as am
  c = am.AsyncResult(); c.set(); am._COMPLETE = c
  tqm.math = stubs.SymMath(); tqm.float = stubs.sym_float; tqm.int = stubs.sym_int
  q = tqm.TimerQueue(time_source=now, resolution=time_const(resolution) if resolution else 0)
  tqm.GLOBAL_TIMER_QUEUE = q
  sinkm.GLOBAL_TIMER_QUEUE = q
  return q


def run_until(t):
  """advance the virtual clock to absolute virtual time t (running everything due before)"""
  d = t - now()
  if d > 0:
    gevent.sleep(d)
  else:
    gevent.sleep(0)


def settle(rounds=3):
  for _ in range(rounds):
    gevent.sleep(0)
