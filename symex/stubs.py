"""Environment models injected as module globals of scales modules (DESIGN.md section 3).
Every one of them is part of the claim and is listed in the evidence of the checks that use it."""
import math as _math
from fractions import Fraction
import z3
from . import engine as _eng
from .values import (SymInt, SymReal, SymRealInt, SymBool, Exact, fresh_int, fresh_real, lift_real, lift_int,
                     choose)


def _E(): return _eng.ENG


# ---------------------------------------------------------------- random (3.3)
class SymRandom(object):
  """random.* returning an arbitrary value of the documented range (a fresh symbolic value)."""
  def __init__(self, prefix='rnd'):
    self.prefix = prefix
  def randint(self, a, b):
    a = int(a); b = int(b)
    return a + choose(self.prefix + '_randint', b - a + 1, inner=True)
  def choice(self, seq):
    seq = list(seq)
    return seq[choose(self.prefix + '_choice', len(seq), inner=True)]
  def shuffle(self, seq):
    return None       # identity permutation: the properties checked are order independent
  def random(self):
    return fresh_real(self.prefix + '_random', 0, 1, hi_strict=True)
  def uniform(self, a, b):
    u = fresh_real(self.prefix + '_uniform', 0, 1)
    return a + (b - a) * u


# ---------------------------------------------------------------- math on symbolic reals (3.8)
def _memo_int(kind, xe, mk):
  """one fresh integer per (kind, term) per path: the code and the oracle see the same value"""
  E = _E()
  if getattr(E, 'cleanup', False):
    # code of an earlier path still running while its greenlets are killed: a throw-away value, never memoized (the
    # same term may come up again in the path that is starting)
    return z3.Int(E.fresh_name(kind + '!'))
  memo = E.__dict__.setdefault('_int_memo', {})
  if E.__dict__.get('_int_memo_path') is not E.trace:
    memo.clear(); E._int_memo_path = E.trace
  key = (kind, xe.get_id())
  if key in memo: return memo[key][0]
  k = z3.Int(E.fresh_name(kind + '!'))
  E.add(*mk(z3.ToReal(k), xe))
  memo[key] = (k, xe)       # keep xe alive so the AST id is not recycled
  return k


def _const_val(xe):
  if z3.is_rational_value(xe):
    return Fraction(xe.numerator_as_long(), xe.denominator_as_long())
  return None


def sym_ceil(x):
  if isinstance(x, SymReal):
    xe = z3.simplify(x.e)
    c = _const_val(xe)
    if c is not None: return _math.ceil(c)
    return SymInt(_memo_int('ceil', xe, lambda kr, xe: (kr >= xe, kr - 1 < xe)))
  if isinstance(x, SymInt): return x
  return _math.ceil(x)


def sym_floor(x):
  if isinstance(x, SymReal):
    xe = z3.simplify(x.e)
    c = _const_val(xe)
    if c is not None: return _math.floor(c)
    return SymInt(_memo_int('floor', xe, lambda kr, xe: (kr <= xe, kr + 1 > xe)))
  if isinstance(x, SymInt): return x
  return _math.floor(x)


def sym_float(x):
  if isinstance(x, (SymReal, Exact)): return x
  if isinstance(x, SymInt): return SymReal(z3.ToReal(x.e))
  if isinstance(x, Fraction): return Exact(x)
  return float(x)


def sym_int(x):
  """int(): truncation toward zero"""
  if isinstance(x, SymInt): return x
  if isinstance(x, SymReal):
    xe = z3.simplify(x.e)
    c = _const_val(xe)
    if c is not None: return int(c)
    return SymInt(_memo_int('trunc', xe, lambda kr, xe: (
      z3.If(xe >= 0, z3.And(kr <= xe, kr + 1 > xe), z3.And(kr >= xe, kr - 1 < xe)),)))
  if isinstance(x, Exact): return int(Fraction(x))
  return int(x)


EXP_FIXED = None        # when set (a rational in (0,1)): exp(x) = 1 if x == 0 else this value, as one linear if-then-else term
EXP_CHOICES = None      # when set (a tuple of rationals in (0,1]), exp() picks one of them by symbolic choice


def exp_calls(bump=False):
  """number of exp() evaluations on the current path"""
  E = _E()
  if E is None: return 0
  st = E.__dict__.setdefault('_exp_calls', [None, 0])
  if st[0] is not E.trace: st[0] = E.trace; st[1] = 0
  if bump: st[1] += 1
  return st[1]


def sym_exp(x):
  """exp(x) for x <= 0 (the only use: EMA weight exp(-dt/W)): a fresh w in (0,1], w = 1 iff x = 0"""
  E = _E()
  exp_calls(bump=True)
  if EXP_FIXED is not None and isinstance(x, (SymReal, Exact)):
    # scenarios that are not about the smoothing: one fixed weight for every dt > 0 keeps the arithmetic linear
    if isinstance(x, SymReal):
      return SymReal(z3.If(x.e == 0, z3.RealVal(1), z3.RealVal(str(Fraction(EXP_FIXED)))))
    return Exact(1) if x == 0 else Exact(Fraction(EXP_FIXED))
  if EXP_CHOICES and isinstance(x, (SymReal, Exact)):
    # linear variant: the weight is one of a few concrete values (1 stands for dt = 0); keeps the EMA arithmetic linear
    rest = [Fraction(c) for c in EXP_CHOICES if Fraction(c) != 1]
    if isinstance(x, SymReal):
      if E.decide(x.e == 0): return SymReal(z3.RealVal(1))           # dt = 0  <=>  w = 1
      i = choose('expw_choice', len(rest), inner=True)
      return SymReal(z3.RealVal(str(rest[i])))
    if x == 0: return Exact(1)
    i = choose('expw_choice', len(rest), inner=True)
    return Exact(rest[i])
  if isinstance(x, SymReal):
    w = z3.Real(E.fresh_name('expw!'))
    E.add(w > 0, w <= 1, (w == 1) == (x.e == 0), x.e <= 0)
    E.declare(str(w), 'real', w)
    return SymReal(w)
  if isinstance(x, Exact):
    # replay: the model supplies the weight chosen by the solver
    name = E.fresh_name('expw!')
    if E.concrete_vals is not None and name in E.concrete_vals:
      return Exact(Fraction(E.concrete_vals[name]))
    return Exact(Fraction(repr(_math.exp(float(x)))))
  return _math.exp(x)


class SymMath(object):
  ceil = staticmethod(sym_ceil)
  floor = staticmethod(sym_floor)
  exp = staticmethod(sym_exp)
  def __getattr__(self, n): return getattr(_math, n)


# ---------------------------------------------------------------- zlib.crc32 (3.7)
class CrcVal(SymInt):
  """the CRC-32 of a (symbolic) byte string: an uninterpreted term over the bytes, remembering
  them so that chaining crc32(b, crc32(a)) == crc32(a + b) holds by construction"""
  __slots__ = ('data',)


def _crc_term(bs):
  n = len(bs)
  f = z3.Function('crc32_%d' % n, *([z3.IntSort()] * n + [z3.IntSort()]))
  t = f(*[b if isinstance(b, z3.ExprRef) else z3.IntVal(int(b)) for b in bs])
  return t


class SymZlib(object):
  @staticmethod
  def crc32(data, value=0):
    import zlib
    from .symbytes import SymBytes
    d = SymBytes.of(data)
    prev = ()
    if isinstance(value, CrcVal): prev = value.data
    elif isinstance(value, int) and value == 0: prev = ()
    elif isinstance(value, int) and d.is_concrete(): return zlib.crc32(bytes(d.b), value)
    else: raise NotImplementedError('crc32 seed of unknown provenance')
    allb = tuple(prev) + tuple(d.b)
    if all(isinstance(b, int) for b in allb):
      v = CrcVal(z3.IntVal(zlib.crc32(bytes(allb))))
    else:
      t = _crc_term(allb)
      _E().add(t >= 0, t < 2 ** 32)
      v = CrcVal(t)
    v.data = allb
    return v
  def __getattr__(self, n):
    import zlib
    return getattr(zlib, n)
