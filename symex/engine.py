"""Dynamic symbolic execution engine: re-execution DFS over the real code with one incremental
z3 solver (push/pop along the DFS spine) and model-guided decisions.

A *path* is the list of boolean decisions taken at `SymBool.__bool__`.  The harness body is re-run
from scratch for every path; the decision prefix is replayed without solver calls.  In CONCRETE
mode (replay of a counterexample) no proxies exist at all: fresh_* return plain Python values from
the recorded model, so the real code runs on real ints / exact rationals.
"""
import time, os
import z3


class Infeasible(BaseException):
  """raised by assume() at harness level only (never inside scales code)"""


class Inconclusive(Exception):
  pass


class PathLimit(BaseException):
  pass


class Pruned(BaseException):
  """raised by hdecide() at harness level only: the path belongs to another shard of the job"""


TRACE_SITES = bool(os.environ.get('VERIF_TRACE_SITES'))
MAX_DECISIONS = int(os.environ.get('VERIF_MAX_DECISIONS', '2000'))
QUERY_TIMEOUT_MS = int(os.environ.get('VERIF_QUERY_TIMEOUT_MS', '20000'))


class Failure(object):
  def __init__(self, name, model_vals, trace, detail=None):
    self.name = name; self.model_vals = model_vals; self.trace = trace; self.detail = detail


class Engine(object):
  """One per worker job.  Holds the solver, the DFS work stack and the statistics."""

  def __init__(self):
    self.mode = 'sym'
    self.s = z3.Solver()
    self.s.set('timeout', QUERY_TIMEOUT_MS)
    self.levels = 0
    self.spine = []       # decisions currently asserted (one solver level each)
    self.spine_conds = [] # the z3 condition of each spine decision (determinism check)
    self.started = False
    self.stats = dict(paths=0, decisions=0, q_sat=0, q_unsat=0, q_unknown=0, solver_s=0.0,
                      checks=0, checks_unsat=0, checks_trivial=0, infeasible=0,
                      nontrivial_paths=0, max_depth=0)
    self.covers = {}
    self.failures = []
    self.known_hits = {}
    self.known_hits_ids = set()
    self.inconclusive = []
    self.samples = []
    self.work = [[]]
    self.concrete_vals = None
    self.concrete_log = None
    self.shard = None
    self.cleanup = False

  # ---------------------------------------------------------------- per path
  def begin(self, prefix):
    k = 0
    while k < len(prefix) and k < len(self.spine) and prefix[k] == self.spine[k]:
      k += 1
    while self.levels > k:
      self.s.pop(); self.levels -= 1
    self.spine = self.spine[:k]; self.spine_conds = self.spine_conds[:k]
    self.keep = k
    self.prefix = prefix; self.trace = []
    self.aborted = False; self._nfail0 = len(getattr(self, 'failures', []))
    self.model = None
    self.nfresh = {}
    self.vars = {}         # name -> (kind, z3 term) declared on this path, in order
    self.pending = []      # deferred checks (name, z3 bool, known-signature or None)
    self.path_covers = set()
    self.boundary_hits = []
    self.path_checked = False
    self.notes = []
    self.hbits = []
    self.decided = {}
    self._snap = (self.stats['checks'], self.stats['checks_trivial'], self.stats['checks_unsat'])

  def add(self, *cs):
    if self.mode != 'sym' or self.cleanup:
      return
    if self._already_asserted():
      return
    self.s.add(*cs); self.model = None

  def _already_asserted(self):
    # level L holds decision L-1 and every add() issued while len(trace)==L.
    # After begin(), levels 0..keep-1 ... wait: level index == number of pushes.
    # adds issued while len(trace) < keep live in levels < keep (kept).
    # adds issued while len(trace) == keep live in level `keep`, which is kept only as the
    # *base* of the flipped decision: push for decision `keep` happened after them, so they
    # are still asserted iff a previous path of this job reached decision `keep`.
    if len(self.trace) < self.keep:
      return True
    if len(self.trace) == self.keep and self.level_complete:
      return True
    return False

  def _abort(self):
    """give up on this path (budget, solver 'unknown', non-determinism): whatever greenlet this happens in, nothing the
    rest of the path asserts is believed (the job is reported inconclusive)"""
    self.aborted = True
    raise PathLimit()

  def fresh_name(self, base):
    if self.cleanup:
      # code of an earlier path still running while its greenlets are killed: its names must not shift this path's
      n = self.__dict__.setdefault('_ncleanup', [0]); n[0] += 1
      return '%s!cleanup%d' % (base, n[0])
    n = self.nfresh.get(base, 0); self.nfresh[base] = n + 1
    return base if n == 0 and not base.endswith('!') else '%s!%d' % (base, n)

  def _check(self, *extra):
    t = time.perf_counter(); r = self.s.check(*extra); self.stats['solver_s'] += time.perf_counter() - t
    if r == z3.unknown:
      # a time-out under load: one retry with a much larger budget before giving up (inconclusive)
      self.s.set('timeout', QUERY_TIMEOUT_MS * 9)
      t = time.perf_counter(); r = self.s.check(*extra); self.stats['solver_s'] += time.perf_counter() - t
      self.s.set('timeout', QUERY_TIMEOUT_MS)
      self.stats['retried'] = self.stats.get('retried', 0) + 1
    if r == z3.sat: self.stats['q_sat'] += 1
    elif r == z3.unsat: self.stats['q_unsat'] += 1
    else:
      self.stats['q_unknown'] += 1
    return r

  def decide(self, cond):
    """cond: z3 BoolRef.  Returns a Python bool; forks when both sides are feasible."""
    if z3.is_true(cond): return True
    if z3.is_false(cond): return False
    if self.cleanup:
      # left-over greenlets of the previous path being killed: their branches are not part of any path
      return False
    cond = z3.simplify(cond)
    if z3.is_true(cond): return True
    if z3.is_false(cond): return False
    # the same condition decided earlier on this path keeps its value (the path condition only grows)
    key = cond.get_id()
    hit = self.decided.get(key)
    if hit is not None:
      return hit[0]
    if z3.is_not(cond):
      hit = self.decided.get(cond.arg(0).get_id())
      if hit is not None: return not hit[0]
    b = self._decide(cond)
    self.decided[key] = (b, cond)
    return b

  def _decide(self, cond):
    i = len(self.trace)
    if i >= MAX_DECISIONS:
      self.inconclusive.append('decision limit %d reached' % MAX_DECISIONS)
      self._abort()
    if TRACE_SITES:
      import traceback
      site = ' < '.join('%s:%d' % (os.path.basename(f.filename), f.lineno) for f in reversed(traceback.extract_stack(limit=14)[:-2]) if '/symex/' not in f.filename)
      sites = self.__dict__.setdefault('_sites', {})
      if i < self.keep and not self.spine_conds[i].eq(cond):
        print('SITE-MISMATCH decision %d\n  was: %s\n  now: %s' % (i, sites.get(i), site), flush=True)
      sites[i] = site
      if os.environ.get('VERIF_TRACE_SITES') == '2': print('DEC', i, 'replay' if i < len(self.prefix) else 'new', site[:60], cond.sexpr()[:90].replace('\n', ' '), flush=True)
    if i < len(self.prefix):
      b = self.prefix[i]
      if i < self.keep:
        if not self.spine_conds[i].eq(cond):
          self.inconclusive.append('nondeterministic re-execution at decision %d: %s vs %s' % (
            i, self.spine_conds[i].sexpr()[:200], cond.sexpr()[:200]))
          self._abort()
    else:
      if self.model is None:
        r = self._check()
        if r != z3.sat:
          if r == z3.unsat:
            self.inconclusive.append('path condition infeasible at a decision (harness bug)')
          else:
            self.inconclusive.append('solver unknown at decision: %s' % self.s.reason_unknown())
          self._abort()
        self.model = self.s.model()
      mv = self.model.eval(cond, model_completion=True)
      b = z3.is_true(mv)
      if not b and not z3.is_false(mv):
        # could not evaluate (should not happen with completion); ask the solver
        b = self._check(cond) == z3.sat
        self.model = None
      other = z3.Not(cond) if b else cond
      r = self._check(other)
      if r == z3.sat:
        self.work.append(self.trace + [not b])
      elif r != z3.unsat:
        self.inconclusive.append('solver unknown on branch feasibility: %s' % self.s.reason_unknown())
      self.stats['decisions'] += 1
    self.trace.append(b)
    if i >= self.keep:
      self.s.push(); self.levels += 1
      self.spine.append(b); self.spine_conds.append(cond)
      self.s.add(cond if b else z3.Not(cond))
      if i < len(self.prefix):
        self.model = None
    return b

  # ---------------------------------------------------------------- harness API
  def hdecide(self, cond):
    """a decision taken by the harness itself (never inside scales code).  The first D of them
    select the shard of a job that is split over several workers: the D bits are read as a
    binary fraction and shard i owns the interval [i/n, (i+1)/n); a path is abandoned as soon as
    its interval no longer meets the shard's."""
    b = self.decide(cond) if not isinstance(cond, bool) else cond
    if self.shard is not None and not isinstance(cond, bool) and len(self.hbits) < self.shard[2]:
      self.hbits.append(b)
      lo, hi = self._shard_range()
      x, size = self._path_range()
      if x + size <= lo or x >= hi:
        self.pending = []
        raise Pruned()
    return b

  def _shard_range(self):
    i, n, D = self.shard
    return (i << D) // n + (1 if ((i << D) % n) else 0), ((i + 1) << D) // n + (1 if (((i + 1) << D) % n) else 0)

  def _path_range(self):
    i, n, D = self.shard
    j = len(self.hbits)
    x = 0
    for bit in self.hbits: x = (x << 1) | (1 if bit else 0)
    return x << (D - j), 1 << (D - j)

  def _maybe_mine(self):
    if self.shard is None: return True
    lo, hi = self._shard_range()
    x, size = self._path_range()
    return not (x + size <= lo or x >= hi)

  def _mine(self):
    if self.shard is None: return True
    lo, hi = self._shard_range()
    x, size = self._path_range()
    return lo <= x < hi

  def assume(self, cond):
    self.flush_checks()
    if self.mode == 'concrete':
      if not cond: raise Infeasible()
      return
    from .values import SymBool
    if isinstance(cond, SymBool): cond = cond.e
    elif isinstance(cond, bool):
      if not cond: raise Infeasible()
      return
    if self._already_asserted():
      return
    self.s.add(cond); self.model = None
    r = self._check()
    if r == z3.unsat:
      raise Infeasible()
    if r != z3.sat:
      self.inconclusive.append('solver unknown in assume'); self._abort()
    self.model = self.s.model()

  def declare(self, name, kind, term):
    self.vars[name] = (kind, term)

  def define(self, name, cond):
    """name a derived boolean term of this path so that known-finding signatures can refer to it"""
    if self.mode != 'sym': return
    from .values import lift_bool
    self.vars[name] = ('bool', lift_bool(cond))

  def cover(self, label):
    self.path_covers.add(label)

  def check(self, name, cond, known=None):
    """record an assertion; decided at path end (or before the next assume)."""
    from .values import SymBool
    self.path_checked = True
    if self.mode == 'sym' and not self._maybe_mine():
      return
    if self.mode == 'concrete':
      ok = bool(cond)
      self.concrete_log.append((name, ok))
      return
    if isinstance(cond, SymBool): c = cond.e
    else: c = z3.BoolVal(bool(cond))
    self.stats['checks'] += 1
    c = z3.simplify(c)
    if z3.is_true(c):
      self.stats['checks_trivial'] += 1; self.stats['checks_unsat'] += 1
      return
    sig = self._known_signature(name)
    if sig is not None:
      entry, sigterm = sig
      if entry['id'] not in self.known_hits_ids:
        r = self._check(z3.And(z3.Not(c), sigterm))
        if r == z3.sat:
          self.known_hits_ids.add(entry['id'])
          self.known_hits[name] = (entry, self.model_values(self.s.model()))
      c = z3.Or(c, sigterm)
    self.pending.append((name, c, None))

  def _known_signature(self, name):
    """a listed known finding (known_findings.json, status 'known') for this assertion: the
    assertion is weakened by exactly the finding's signature predicate, so any violation
    outside the signature is still reported."""
    import fnmatch
    for entry in KNOWN:
      if entry.get('assertion') != name: continue
      if not fnmatch.fnmatch(JOBNAME, entry.get('job', '*')): continue
      ns = {'And': z3.And, 'Or': z3.Or, 'Not': z3.Not, 'Implies': z3.Implies, 'true': z3.BoolVal(True)}
      for vn, (kind, term) in self.vars.items(): ns[vn.replace('!', '_')] = term
      try:
        t = eval(entry.get('signature', 'true'), {'__builtins__': {}}, ns)
      except NameError:
        continue
      if isinstance(t, bool): t = z3.BoolVal(t)
      return entry, t
    return None

  def flush_checks(self):
    if self.mode != 'sym' or not self.pending:
      return
    if not self._mine():
      self.pending = []
      return
    pend, self.pending = self.pending, []
    allc = z3.And([c for _, c, _ in pend]) if len(pend) > 1 else pend[0][1]
    r = self._check(z3.Not(allc))
    self._maybe_dump(z3.Not(allc), r)
    if r == z3.unsat:
      self.stats['checks_unsat'] += len(pend)
      return
    for name, c, known in pend:
      r = self._check(z3.Not(c))
      if r == z3.unsat:
        self.stats['checks_unsat'] += 1
      elif r == z3.sat:
        m = self.s.model()
        self.failures.append(Failure(name, self.model_values(m), list(self.trace), detail=known))
      else:
        self.inconclusive.append('solver unknown on assertion %s: %s' % (name, self.s.reason_unknown()))

  def _maybe_dump(self, extra, result):
    """thorough tier: a sample of assertion queries is written out as SMT-LIB2 and re-decided by cvc5"""
    d = DUMP_DIR
    if not d or result not in (z3.sat, z3.unsat): return
    self.ndump_seen = getattr(self, 'ndump_seen', 0) + 1
    n = self.ndump_seen
    # geometric sampling: queries 1,2,4,8,... of every job, at most 12 per job
    if n & (n - 1) or getattr(self, 'ndumped', 0) >= 12: return
    self.ndumped = getattr(self, 'ndumped', 0) + 1
    try:
      txt = self.s.to_smt2().replace('(check-sat)', '(assert %s)\n(check-sat)' % extra.sexpr())
      name = '%s-%d-%s.smt2' % (JOBNAME.replace('/', '_').replace('#', '_'), n, 'sat' if result == z3.sat else 'unsat')
      with open(os.path.join(d, name), 'w') as f:
        f.write('(set-logic ALL)\n' + txt)
    except Exception:
      pass

  def model_values(self, m):
    out = {}
    for name, (kind, term) in self.vars.items():
      v = m.eval(term, model_completion=True)
      if kind == 'int': out[name] = v.as_long()
      elif kind == 'bool': out[name] = z3.is_true(v)
      elif kind == 'real':
        v = z3.simplify(v)
        if z3.is_rational_value(v):
          out[name] = '%s/%s' % (v.numerator_as_long(), v.denominator_as_long())
        else:
          out[name] = str(v)
    return out

  def end_path(self):
    self.flush_checks()
    self.stats['paths'] += 1
    self.stats['max_depth'] = max(self.stats['max_depth'], len(self.trace))
    if self.path_checked and self.trace:
      self.stats['nontrivial_paths'] += 1
    for c in self.path_covers:
      self.covers[c] = self.covers.get(c, 0) + 1
    for b in self.boundary_hits:
      self.inconclusive.append('unmodelled C boundary: %s' % b)


ENG = None
DUMP_DIR = os.environ.get('VERIF_DUMP_QUERIES')
KNOWN = []
JOBNAME = ''


def current():
  return ENG


def set_engine(e):
  global ENG
  ENG = e


def explore(body, max_paths=10**7, stop_on_failure=True, first_prefix=None, soft_prefixes=(), shard=None, max_seconds=None):
  """Run body() over every feasible path.  body() builds fresh state, runs the real code and
  calls check()/cover().  Returns the Engine with statistics, failures, covers."""
  E = Engine(); set_engine(E)
  E.level_complete = False
  E.shard = shard
  t_start = time.perf_counter()
  if first_prefix: E.work = [list(first_prefix)]
  while E.work:
    pre = E.work.pop()
    E.begin(pre)
    pruned_now = False
    try:
      body()
    except Infeasible:
      E.stats['infeasible'] += 1
      E.pending = []
      E.path_checked = False
    except PathLimit:
      pass
    except Exception as ex:
      name = _scales_exception(ex)
      if name is None: raise
      # an exception escaping from the code under test: a failed (implicit) assertion
      E.flush_checks()
      if E._mine() and E._check() == z3.sat:
        E.failures.append(Failure(name, E.model_values(E.s.model()), list(E.trace), detail=repr(ex)[:300]))
      E.path_checked = True
    except Pruned:
      E.stats['pruned'] = E.stats.get('pruned', 0) + 1
      E.path_checked = False; E.path_covers = set()
      E.stats['paths'] -= 1
      pruned_now = True
    if getattr(E, 'aborted', False):
      # the path was abandoned inside some greenlet (the others ran on): discard what it asserted
      E.pending = []; E.path_checked = False; del E.failures[E._nfail0:]
    if pruned_now or not E._mine():
      E.stats['checks'], E.stats['checks_trivial'], E.stats['checks_unsat'] = E._snap
    if not pruned_now and not E._mine():
      E.pending = []; E.path_checked = False; E.path_covers = set(); E.stats['paths'] -= 1
    E.end_path()
    E.started = True; E.level_complete = True
    if len(E.samples) < 3 and E.path_checked:
      try:
        if E.s.check() == z3.sat:
          E.samples.append({'decisions': ''.join('T' if b else 'F' for b in E.trace)[:200],
                            'model': E.model_values(E.s.model())})
      except Exception:
        pass
    if stop_on_failure and any(not f.name.startswith(tuple(soft_prefixes)) for f in E.failures): break
    if len(E.failures) > 50: break
    if E.inconclusive: break
    if max_seconds and time.perf_counter() - t_start > max_seconds:
      E.inconclusive.append('job time budget %ds exhausted after %d paths' % (max_seconds, E.stats['paths'])); break
    if E.stats['paths'] >= max_paths:
      E.inconclusive.append('path budget %d exhausted' % max_paths); break
  return E


def run_concrete(body, values):
  """Replay: run body() with every fresh_* bound to a concrete value.  Returns list of (name, ok)."""
  E = Engine(); set_engine(E)
  E.mode = 'concrete'; E.concrete_vals = dict(values); E.concrete_log = []
  E.begin([])
  try:
    body()
  except Infeasible:
    E.concrete_log.append(('__assume__', False))
  except Exception as ex:
    name = _scales_exception(ex)
    if name is None: raise
    E.concrete_log.append((name, False))
  return E


def _scales_exception(ex):
  """'unexpected-exception:<Type>' if the exception was raised by code under /repo/scales (directly
  or inside a stub it called), None if it comes from the harness itself"""
  import traceback, os
  repo = os.environ.get('VERIF_REPO', '/repo') + '/scales/'
  frames = traceback.extract_tb(ex.__traceback__)
  if not frames: return None
  inner = frames[-1].filename
  if inner.startswith(repo): return 'unexpected-exception:%s' % type(ex).__name__
  if '/symex/' in inner and any(f.filename.startswith(repo) for f in frames):
    return 'unexpected-exception:%s' % type(ex).__name__
  return None
