"""pytest plugin: run the repository's own tests on the virtual loop (validation of the loop model)."""
import gevent, time
_loop = gevent.get_hub().loop
time.time = lambda: _loop.now()
