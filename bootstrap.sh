#!/bin/sh
# Builds /verif/.venv: an overlay of /venv (the repository's own environment) plus z3-solver from
# the offline wheelhouse.  Idempotent; every check calls it first because .venv is not committed.
set -e
cd "$(dirname "$0")"
V=.venv
if [ ! -x "$V/bin/python" ] || ! "$V/bin/python" -c "import z3, gevent, scales" >/dev/null 2>&1; then
  (
    flock 9
    if [ ! -x "$V/bin/python" ] || ! "$V/bin/python" -c "import z3, gevent, scales" >/dev/null 2>&1; then
      rm -rf "$V"
      /venv/bin/python -m venv "$V"
      SP=$("$V/bin/python" -c "import sysconfig; print(sysconfig.get_paths()['purelib'])")
      printf '/venv/lib/python3.12/site-packages\n/repo\n' > "$SP/overlay.pth"
      PIP_NO_INDEX=1 "$V/bin/pip" install -q --no-index --find-links /opt/veriftools/wheels z3-solver >/dev/null
    fi
  ) 9>.venv.lock
fi
exit 0
